"""C01 - parsing an ACE keeps its meaning (fields and re-rendered text).

Enumerated completely (DESIGN 4/C01):
 (i)   deviation-bounded ACE space: every entry within d field deviations of three base entries,
       every spelling of the deviating fields, every configuration of the tier;
 (ii)  full product source port x destination address x destination port x option tail;
 (iii) one-dimensional sweeps: all 256 protocols as number and name, all 65535 `eq` operands at ACE
       level, all 33 contiguous masks in every spelling, every table name in both port positions
       followed by flag/log tokens, all sequence spellings, whitespace variants;
 (iv)  the standard-ACE sub-grammar.
Oracle: meaning known by construction; parsed fields compared with it; the rendered line is read
by the independent reader of the object's platform and must denote the same packets and action.
"""
from __future__ import annotations

from itertools import product

from vf.gen import alpha as G
from vf.refsem import sets as S
from vf.refsem.packets import Rule, same_packets
from vf.refsem.reader import Reader, Reject

ID = "C01"
LEVEL = "exploration"
RULE = ("(abstract ACE, spelling, configuration) triples enumerated completely within the stated "
        "deviation bound / products / sweeps; non-trivial = distinct (configuration, input text) "
        "whose entry deviates from a base entry or uses a non-canonical spelling")
ASSUMPTIONS = [
    "packet model of DESIGN section 3 (protocol 0 = ip = all, absent port expression = no constraint, "
    "flags as disjunction)",
    "golden name tables; the per-configuration port-name vocabulary is read from the library (C09 "
    "checks it for closure)",
    "independent readers vf/refsem/reader.py (self-tested on fixtures)",
]
REQUIRED = ["parsed_and_rendered_ok", "nc_wildcard", "named_port", "foreign_spelling", "entry_point_ok",
            "nxos_multi_eq_refused", "standard_ok"]


def _cfgs(tier, seed):
    """[(configuration, deviation bound)]: the deepest bound on one IOS and one NX-OS
    configuration (switches off / on), a shallower one on every other configuration."""
    if tier == "thorough":
        allc = G.configs("thorough", seed)
        deep = (seed % 16, 16 + (seed + 7) % 16)
        return [(c, 3 if i in deep else 2) for i, c in enumerate(allc)]
    c = G.configs("quick", seed)
    return [(c[0], 2), (c[7], 2)] + [(x, 1) for i, x in enumerate(c) if i not in (0, 7)]


def describe(tier, seed):
    return dict(configurations_and_deviation_bounds=_cfgs(tier, seed),
                window=S.int2ip(G.window(seed)) + "/24",
                bases=[b.text("ios") for b in G.bases(seed)],
                alphabet_sizes={k: len(v) for k, v in G.field_alphabets(seed, "ios").items()})


def units(tier, seed):
    out = []
    cfgs = _cfgs(tier, seed)
    from itertools import combinations

    for ci, (_cfg, d) in enumerate(cfgs):
        for bi in range(3):
            out.append(dict(kind="dev", cfg=ci, base=bi, fields=[]))
            for k in range(1, d + 1):
                for fields in combinations(G.FIELDS, k):
                    out.append(dict(kind="dev", cfg=ci, base=bi, fields=list(fields)))
        if d >= 2:
            for si in range(8):
                out.append(dict(kind="prod4", cfg=ci, sport=si))
    allc = G.configs("thorough", seed)
    for ci in range(len(allc)):
        out.append(dict(kind="names", cfg=ci))
        out.append(dict(kind="protos", cfg=ci))
    for plat in G.PLATFORMS:
        for lo in range(1, 65536, 4096):
            out.append(dict(kind="eq_sweep", platform=plat, lo=lo, hi=min(lo + 4095, 65535)))
        out.append(dict(kind="masks", platform=plat))
        out.append(dict(kind="seqs", platform=plat))
    out.append(dict(kind="standard"))
    out.append(dict(kind="nxos_multi"))
    return out


def run_unit(unit, ctx):
    k = unit["kind"]
    if k == "dev":
        _dev(unit, ctx)
    elif k == "prod4":
        _prod4(unit, ctx)
    elif k == "names":
        _names(unit, ctx)
    elif k == "protos":
        _protos(unit, ctx)
    elif k == "eq_sweep":
        _eq_sweep(unit, ctx)
    elif k == "masks":
        _masks(unit, ctx)
    elif k == "seqs":
        _seqs(unit, ctx)
    elif k == "standard":
        _standard(ctx)
    elif k == "nxos_multi":
        _nxos_multi(ctx)


def replay(case, ctx):
    if case["kind"] == "text":
        exp = case["expect"]
        rule = Rule(exp["action"], exp["proto"], tuple(tuple(c) for c in exp["src"]),
                    _unmask(exp["sport"]), tuple(tuple(c) for c in exp["dst"]),
                    _unmask(exp["dport"]), S.flags_mask(exp["flags"]), exp["seq"],
                    tuple(exp["logs"]), tuple(exp["flags"]), exp["sgroup"], exp["dgroup"])
        check_text(case["text"], case["cfg"], rule, ctx, expr=(exp.get("sexpr"), exp.get("dexpr")),
                   acl_type=case.get("type", "extended"), via=case.get("via", "Ace"))
    elif case["kind"] == "reject":
        _expect_reject(case["text"], case["cfg"], ctx)


# ------------------------------------------------------------------------------------------------

_WANT_PORTS: dict = {}


def _want_ports(expr):
    """Expected `Port.ports` list for an expression (op, operands) or None."""
    if not expr:
        return []
    key = (expr[0], tuple(expr[1]))
    if key not in _WANT_PORTS:
        _WANT_PORTS[key] = S.mask_to_list(S.port_expr_mask(*key))
    return _WANT_PORTS[key]


def _mask_json(mask):
    return "any" if mask == S.PORT_ANY else S.mask_to_list(mask) if bin(mask).count("1") < 50 \
        else dict(n=bin(mask).count("1"), hex=hex(mask))


def _unmask(val):
    if val == "any":
        return S.PORT_ANY
    if isinstance(val, dict):
        return int(val["hex"], 16)
    return S.port_mask(val)


def _case(text, cfg, rule, expr, acl_type="extended"):
    return dict(kind="text", text=text, cfg=cfg, type=acl_type, expect=dict(
        action=rule.action, proto=rule.proto, src=list(rule.src), sport=_mask_json(rule.sport),
        dst=list(rule.dst), dport=_mask_json(rule.dport), flags=list(rule.flag_tokens),
        logs=list(rule.logs), seq=rule.seq, sgroup=rule.src_group, dgroup=rule.dst_group,
        sexpr=expr[0], dexpr=expr[1]))


def _nets(ipnets):
    return {(int(n.network_address), n.prefixlen) for n in ipnets}


VIAS = ["AceGroup", "Acl", "Acl.items", "AceGroup.items", "acls", "acls.group_by", "aces",
        "aces.group_by", "data", "copy"]


def _parse_via(text, cfg, via, acl_type="extended"):
    """The Ace object for one line through one of the entry points that read ACE lines."""
    import cisco_acl
    from cisco_acl import Ace, AceGroup, Acl

    plat = cfg["platform"]
    head = f"ip access-list {acl_type} A" if plat == "ios" else "ip access-list A"

    def only(items):
        aces = [o for o in items if isinstance(o, Ace)]
        if len(aces) != 1:
            raise ValueError(f"{len(aces)} entries built from one line")
        return aces[0]

    if via == "Ace":
        return Ace(text, **cfg)
    if via == "AceGroup":
        return only(AceGroup(text, **cfg).items)
    if via == "Acl":
        return only(Acl(f"{head}\n {text}", **cfg).items)
    if via == "Acl.items":
        return only(Acl(name="A", items=[text], **cfg).items)
    if via == "AceGroup.items":
        return only(AceGroup(items=[text], **cfg).items)
    if via == "acls":
        return only(cisco_acl.acls(f"{head}\n {text}\n", **cfg)[0].items)
    if via == "acls.group_by":
        return only(cisco_acl.acls(f"{head}\n remark = h\n {text}\n", group_by="= ", **cfg)[0].items[0].items)
    if via == "aces":
        return only(cisco_acl.aces(f"{head}\n {text}\n", **cfg))
    if via == "aces.group_by":
        return only(cisco_acl.aces(f"{head}\n remark = h\n {text}\n", group_by="= ", **cfg)[0].items)
    if via == "data":
        return Ace(**Ace(text, **cfg).data())
    if via == "copy":
        return Ace(text, **cfg).copy()
    raise KeyError(via)


def check_text(text, cfg, rule, ctx, expr=(None, None), acl_type="extended", via="Ace"):
    """Parse `text` under `cfg`, compare fields with `rule`, re-read the rendering."""
    ctx.ev()
    case = _case(text, cfg, rule, expr, acl_type)
    if via != "Ace":
        case["via"] = via
    try:
        ace = _parse_via(text, cfg, via, acl_type)
    except (ValueError, TypeError, IndexError) as ex:
        ctx.viol("Ace:valid_line_rejected", case, repr(ex), "accepted")
        return None
    bad = {}
    if ace.action != rule.action:
        bad["action"] = (ace.action, rule.action)
    if ace.protocol.number != rule.proto:
        bad["protocol.number"] = (ace.protocol.number, rule.proto)
    if ace.sequence != rule.seq:
        bad["sequence"] = (ace.sequence, rule.seq)
    if ace.type != acl_type:
        bad["type"] = (ace.type, acl_type)
    for side, cubes, grp in (("srcaddr", rule.src, rule.src_group),
                             ("dstaddr", rule.dst, rule.dst_group)):
        adr = getattr(ace, side)
        if grp:
            if adr.addrgroup != grp or adr.type != "addrgroup":
                bad[side] = ((adr.type, adr.addrgroup), ("addrgroup", grp))
            continue
        want = set()
        for c in cubes:
            want |= S.cube_prefixes(c)
        got = _nets(adr.ipnets())
        if got != want:
            bad[side] = (sorted(got)[:4], sorted(want)[:4])
    for side, ex in (("srcport", expr[0]), ("dstport", expr[1])):
        got = getattr(ace, side).ports
        if got != _want_ports(ex):
            if set(got) != set(_want_ports(ex)):
                bad[side] = (got[:6], _want_ports(ex)[:6], len(got), len(_want_ports(ex)))
    if list(ace.option.flags) != list(rule.flag_tokens):
        bad["option.flags"] = (ace.option.flags, list(rule.flag_tokens))
    if list(ace.option.logs) != list(rule.logs):
        bad["option.logs"] = (ace.option.logs, list(rule.logs))
    if bad:
        ctx.viol("Ace:parsed_fields:" + "+".join(sorted(bad)), case,
                 {k: v[0] for k, v in bad.items()}, {k: v[1] for k, v in bad.items()})
        return ace
    # the rendered line, read independently on the object's platform
    line = ace.line
    vocab = G.port_vocab(cfg["platform"], cfg.get("version", ""))
    try:
        back = Reader(cfg["platform"], port_names=vocab).read_line(line, acl_type)
    except Reject as ex:
        ctx.viol("Ace.line:not_valid_syntax", case, dict(line=line, why=str(ex)),
                 f"valid {cfg['platform']} syntax")
        return ace
    if not same_packets(back, rule) or back.src_group != rule.src_group \
            or back.dst_group != rule.dst_group:
        ctx.viol("Ace.line:other_packets", case, dict(line=line, read=repr(back)), repr(rule))
    elif back.seq != rule.seq or back.logs != rule.logs or back.flag_tokens != rule.flag_tokens:
        ctx.viol("Ace.line:seq_flags_logs", case,
                 dict(line=line, seq=back.seq, logs=back.logs, flags=back.flag_tokens),
                 dict(seq=rule.seq, logs=rule.logs, flags=rule.flag_tokens))
    else:
        ctx.out("parsed_and_rendered_ok")
        # switches: text only
        if cfg.get("port_nr") and any(ex for ex in back._exprs) and \
                any(not t.isdigit() for t in _port_tokens(line, back)):
            ctx.viol("Ace.line:port_nr_ignored", case, line, "numeric ports")
    return ace


def _port_tokens(line, rule):
    toks = line.split()
    out = []
    i = 0
    while i < len(toks):
        if toks[i] in ("eq", "neq", "lt", "gt", "range"):
            i += 1
            while i < len(toks) and (toks[i].isdigit() or toks[i][0].islower()) \
                    and toks[i] not in ("any", "host", "object-group", "addrgroup", "log",
                                        "log-input") + S.FLAG_NAMES:
                out.append(toks[i])
                i += 1
        else:
            i += 1
    return out


def _expect_reject(text, cfg, ctx):
    from cisco_acl import Ace

    ctx.ev()
    try:
        Ace(text, **cfg)
    except (ValueError, TypeError):
        ctx.out("nxos_multi_eq_refused")
        return
    ctx.viol("Ace:invalid_for_platform_accepted", dict(kind="reject", text=text, cfg=cfg),
             "accepted", "ValueError (NX-OS takes one operand for eq/neq)")


def _spell_lists(acex, fields, cfg):
    """Spelling index ranges of the deviating fields."""
    plat, ver = cfg["platform"], cfg["version"]
    dims = {}
    if "src" in fields:
        dims["src"] = range(len(acex.src.spellings(plat)))
    if "dst" in fields:
        dims["dst"] = range(len(acex.dst.spellings(plat)))
    if "sport" in fields:
        dims["sport"] = range(len(acex.sport.spellings(acex.proto, plat, ver)))
    if "dport" in fields:
        dims["dport"] = range(len(acex.dport.spellings(acex.proto, plat, ver)))
    if "proto" in fields:
        dims["proto"] = range(len(G.proto_spellings(acex.proto, plat)))
    if "seq" in fields:
        dims["seq_text"] = [t for s, t in G.SEQS if s == acex.seq]
    return dims


def _emit(acex, cfg, sp, spacing, ctx, nontrivial=True, via_all=False):
    plat, ver = cfg["platform"], cfg["version"]
    text = acex.text(plat, ver, sp, spacing)
    rule = acex.rule(resolve_groups=False)
    expr = tuple((px.op, list(px.operands)) if px.op else None for px in (acex.sport, acex.dport))
    if not acex.valid(plat):
        if acex.valid("ios"):  # only the NX-OS operand-count rule makes it invalid
            _expect_reject(text, cfg, ctx)
        return
    if nontrivial:
        ctx.nt((cfg["platform"], cfg["version"], cfg["port_nr"], cfg["protocol_nr"], text))
    if acex.src.is_nc or acex.dst.is_nc:
        ctx.out("nc_wildcard")
    if any(not tok.isdigit() for tok in _port_tokens(text, None)):
        ctx.out("named_port")
    for key, lst in (("src", acex.src.spellings(plat)), ("dst", acex.dst.spellings(plat))):
        idx = min(sp.get(key, 0), len(lst) - 1)
        if not lst[idx][1]:
            ctx.out("foreign_spelling")
    check_text(text, cfg, rule, ctx, expr)
    if via_all and not (acex.src.group or acex.dst.group):
        # the same line through every other entry point that reads ACE lines
        for via in VIAS:
            if check_text(text, cfg, rule, ctx, expr, via=via) is not None:
                ctx.out("entry_point_ok")


def _dev(unit, ctx):
    cfg = _cfgs(ctx.tier, ctx.seed)[unit["cfg"]][0]
    base = G.bases(ctx.seed)[unit["base"]]
    alph = G.field_alphabets(ctx.seed, cfg["platform"])
    fields = tuple(unit["fields"])
    if not fields:
        for spacing in G.SPACING:
            _emit(base, cfg, {}, spacing, ctx, nontrivial=spacing != "single")
        return
    pools = [[v for v in alph[f] if v != getattr(base, f)] for f in fields]
    n = 0
    for combo in product(*pools):
        kw = {f: getattr(base, f) for f in G.FIELDS}
        kw.update(dict(zip(fields, combo)))
        acex = G.AceX(**kw)
        if not acex.valid("ios"):
            continue
        dims = _spell_lists(acex, fields, cfg)
        keys = list(dims)
        for choice in product(*[dims[k] for k in keys]):
            sp = dict(zip(keys, choice))
            _emit(acex, cfg, sp, "single", ctx, via_all=len(fields) == 1 and not any(choice))
            n += 1
        if len(fields) == 1:
            for spacing in G.SPACING[1:]:
                _emit(acex, cfg, {}, spacing, ctx)
    if n:
        ctx.sample("deviation", dict(cfg=cfg, base=base.text(cfg["platform"]), fields=fields,
                                     last=acex.text(cfg["platform"], cfg["version"])))


def _prod4(unit, ctx):
    """sport x dstaddr x dport x option tail: the fields the splitter has to separate."""
    cfg = _cfgs(ctx.tier, ctx.seed)[unit["cfg"]][0]
    plat = cfg["platform"]
    small = ctx.tier == "quick"
    sports = G.port_alphabet(ctx.seed, plat, small=True)
    if unit["sport"] >= len(sports):
        return
    sport = sports[unit["sport"]]
    dsts = G.addr_alphabet(ctx.seed, groups=True, small=small)
    dports = G.port_alphabet(ctx.seed + 1, plat, small=small)
    tails = list(product(G.FLAGS[:4] if small else G.FLAGS, G.LOGS[:2] if small else G.LOGS))
    anyaddr = G.addr_alphabet(ctx.seed)[0]
    for dst in dsts:
        if dst.group == "G0" or (dst.group and dst.group != "G3"):
            continue
        for dport in dports:
            for flags, logs in tails:
                acex = G.AceX("permit", 6, anyaddr, sport, dst, dport, flags, logs, 0)
                for di in range(len(dst.spellings(plat))):
                    for pi in range(len(dport.spellings(6, plat, cfg["version"]))):
                        _emit(acex, cfg, dict(dst=di, dport=pi), "single", ctx)
    ctx.sample("prod4", dict(cfg=cfg, sport=sport.op, n_dst=len(dsts), n_dport=len(dports)))


def _names(unit, ctx):
    """Every table name of the configuration in both port positions, followed by option tokens."""
    cfg = G.configs("thorough", ctx.seed)[unit["cfg"]]
    plat, ver = cfg["platform"], cfg["version"]
    from vf.refsem import golden

    al = G.addr_alphabet(ctx.seed)
    anyaddr, net = al[0], al[4]
    for proto, pname in ((6, "tcp"), (17, "udp")):
        for name in sorted(G.port_vocab(plat, ver)[pname]):
            nr = golden.PORTS[pname].get(name)
            if nr is None:
                ctx.out("unverified_names")
                continue
            tails = [((), ()), ((), ("log",))]
            if proto == 6:
                tails += [(("ack",), ("log",)), (("syn",), ("log-input",))]
            for flags, logs in tails:
                for pos in ("src", "dst", "both"):
                    px = G.PortX("eq", (nr,))
                    acex = G.AceX("permit", proto, net, px if pos != "dst" else G.PortX(),
                                  anyaddr, px if pos != "src" else G.PortX(), flags, logs, 0)
                    expr = tuple(("eq", [nr]) if p.op else None for p in (acex.sport, acex.dport))
                    for pspell in (pname, str(proto)):  # protocol as keyword and as number
                        text = (f"permit {pspell} {net.spellings(plat)[0][0]} "
                                + (f"eq {name} " if pos != "dst" else "") + "any "
                                + (f"eq {name} " if pos != "src" else "")
                                + " ".join(flags + logs)).strip()
                        ctx.nt((unit["cfg"], text))
                        ctx.out("named_port")
                        check_text(text, cfg, acex.rule(), ctx, expr)
    ctx.sample("names", dict(cfg=cfg))


def _protos(unit, ctx):
    cfg = G.configs("thorough", ctx.seed)[unit["cfg"]]
    plat = cfg["platform"]
    al = G.addr_alphabet(ctx.seed)
    for n in range(256):
        for text_p, _native in G.proto_spellings(n, plat):
            for tail in ("", " log"):
                acex = G.AceX("deny", n, al[1], G.PortX(), al[4], G.PortX(), (),
                              ("log",) if tail else (), 0)
                text = f"deny {text_p} {al[1].spellings(plat)[0][0]} {al[4].spellings(plat)[0][0]}{tail}"
                ctx.nt((unit["cfg"], text))
                check_text(text, cfg, acex.rule(), ctx)
    ctx.sample("protocols", dict(cfg=cfg, n=256))


def _eq_sweep(unit, ctx):
    cfg = dict(platform=unit["platform"], version="", port_nr=False, protocol_nr=False)
    al = G.addr_alphabet(ctx.seed)
    rule0 = G.AceX("permit", 17, al[0], G.PortX(), al[0], G.PortX())
    for n in range(unit["lo"], unit["hi"] + 1):
        px = G.PortX("eq", (n,))
        acex = G.AceX("permit", 17, al[0], G.PortX(), al[0], px)
        ctx.nt_count()
        check_text(f"permit udp any any eq {n}", cfg, acex.rule(), ctx, (None, ("eq", [n])))
    _ = rule0
    ctx.sample("eq_sweep", dict(unit))


def _masks(unit, ctx):
    plat = unit["platform"]
    cfg = dict(platform=plat, version="", port_nr=False, protocol_nr=False)
    base = G.window(ctx.seed) | 0x55
    anyaddr = G.addr_alphabet(ctx.seed)[0]
    for ln in range(33):
        wild = (1 << (32 - ln)) - 1 if ln < 32 else 0
        adr = G.mk(f"len{ln}", base, wild)
        for si, (sp, _native) in enumerate(adr.spellings(plat)):
            for side in ("src", "dst"):
                acex = G.AceX("permit", 0, adr if side == "src" else anyaddr, G.PortX(),
                              adr if side == "dst" else anyaddr, G.PortX())
                text = acex.text(plat, "", {side: si})
                ctx.nt((plat, text))
                check_text(text, cfg, acex.rule(), ctx)
    ctx.sample("masks", dict(platform=plat, base=S.int2ip(base)))


def _seqs(unit, ctx):
    plat = unit["platform"]
    cfg = dict(platform=plat, version="", port_nr=False, protocol_nr=False)
    for base in G.bases(ctx.seed):
        for seq, text_s in G.SEQS + [(4294967294, "4294967294"), (65536, "65536"), (7, "007")]:
            for spacing in G.SPACING:
                kw = {f: getattr(base, f) for f in G.FIELDS}
                kw["seq"] = seq
                acex = G.AceX(**kw)
                text = acex.text(plat, "", dict(seq_text=text_s), spacing)
                ctx.nt((plat, text))
                expr = tuple((px.op, list(px.operands)) if px.op else None
                             for px in (acex.sport, acex.dport))
                check_text(text, cfg, acex.rule(), ctx, expr)
    ctx.sample("seqs", dict(platform=plat))


def _nxos_multi(ctx):
    """eq/neq with several operands is not NX-OS syntax: a documented refusal is required."""
    for ver in G.VERSIONS:
        cfg = dict(platform="nxos", version=ver, port_nr=False, protocol_nr=False)
        for op in ("eq", "neq"):
            for operands in ("80 443", "1 2 3", "www 443"):
                for text in (f"permit tcp any {op} {operands} any",
                             f"permit tcp any any {op} {operands} log",
                             f"10 deny udp host 10.0.0.1 {op} 53 123 10.0.0.0/24 {op} 53 123"):
                    _expect_reject(text, cfg, ctx)


def _standard(ctx):
    cfg = dict(platform="ios", version="", port_nr=False, protocol_nr=False)
    anyc = (S.ANY_CUBE,)
    for adr in G.addr_alphabet(ctx.seed):
        for si, (sp, native) in enumerate(adr.spellings("ios")):
            if not native:
                continue
            spells = [sp]
            if sp.startswith("host "):
                spells.append(sp[5:])  # bare host
            for spell in spells:
                for action in ("permit", "deny"):
                    for seq, seq_text in ((0, ""), (20, "20")):
                        for logs in ((), ("log",)):
                            text = " ".join(t for t in (seq_text, action, spell, *logs) if t)
                            rule = Rule(action, 0, adr.cubes, S.PORT_ANY, anyc, S.PORT_ANY,
                                        S.FLAG_ANY, seq, logs, (), "", "")
                            ctx.nt(("std", text))
                            ace = check_text(text, cfg, rule, ctx, acl_type="standard")
                            if ace is not None:
                                ctx.out("standard_ok")
    ctx.sample("standard", "permit 10.0.0.1 log")
