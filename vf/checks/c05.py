"""C05 - wildcard -> prefixes is exact; limits reject, never truncate; no stale results.

(a) inputs: every mask with <= 3 wildcard bits above the low contiguous run, for every run length
    0..32, x 4 bases; every one of the 4096 masks of two 12-bit windows that straddle octet
    boundaries x 3 bases; the 33 contiguous masks through all constructors and the Address views;
    every limit 0..30 x masks needing k in {0, limit-1, limit, limit+1, 31} bits x 3 placements.
(b) histories: every sequence of exactly D operations (line assignments incl. refused ones, limit
    changes, queries) on ONE Wildcard / Address / AddressAg object, no state merging; after every
    step all derived values must equal those of a brand-new object built from the current line.
"""
from __future__ import annotations

import itertools

from vf.refsem import sets as S

ID = "C05"
LEVEL = "model_checking"
RULE = ("(a) masks enumerated completely per shape class; a case is non-trivial when the mask is "
        "non-contiguous (k >= 1 stray bits) or the base has bits under the wildcard, distinct by "
        "(base, mask, limit); (b) histories: every operation sequence of the stated depth over the "
        "operation alphabet, executed on a fresh real object (a state is the history reaching it), "
        "states counted = distinct fingerprints of the object after each step, "
        "traces_validated = complete histories replayed on the implementation")
ASSUMPTIONS = [
    "prefix expansion oracle: definition by bit positions (vf.refsem.sets.cube_prefixes), self-tested",
    "CPython ipaddress.IPv4Network/IPv4Address",
    "after lowering max_ncwb below what the current line needs the line stays valid (the property "
    "rejects only when a line is set); derived values are compared with a fresh object built with "
    "limit 30",
]
REQUIRED = ["noncontiguous_exact", "contiguous_exact", "limit_rejected", "limit_accepted",
            "hist_refused_assignment", "hist_step_ok", "hist_group_with_members", "hist_blind"]

ALL32 = S.ALL32
SEED_BASES = [0x0A141E28, 0xC0A80A63, 0xAC100B07, 0x644F2D11, 0x0B16212C]


def _bases(seed):
    return [0, ALL32, 0xAAAAAAAA, SEED_BASES[seed % len(SEED_BASES)]]


def describe(tier, seed):
    return dict(stray_bits_max=3, run_lengths="0..32", bases=[S.int2ip(b) for b in _bases(seed)],
                windows=["bits 4-15", "bits 20-31"], limits="0..30",
                history_depth=_depth(tier), wildcard_ops=len(_w_ops()), address_ops=len(_a_ops("a")))


def _depth(tier):
    return dict(wildcard=4 if tier == "quick" else 5, address=3 if tier == "quick" else 4)


def units(tier, seed):
    out = []
    for r in range(33):
        for bi in range(4):
            out.append(dict(kind="stray", r=r, base=bi))
    for w in (4, 20):
        for bi in range(3):
            for chunk in range(8):
                out.append(dict(kind="window", shift=w, base=bi, chunk=chunk))
    out.append(dict(kind="contig"))
    for limit in range(31):
        out.append(dict(kind="limit", limit=limit))
    out.append(dict(kind="limit_arg"))
    for limit in CONTAINER_LIMITS:
        out.append(dict(kind="limit_containers", limit=limit))
    dep = _depth(tier)
    nw = len(_w_ops())
    # iterate the bound: depth 1, 2, ... first, so the first counterexample is the shortest
    for d in (1, 2):
        out.append(dict(kind="hist_w", first=[], depth=d))
        for cls in ("a", "ag"):
            out.append(dict(kind="hist_a", cls=cls, first=[], depth=d))
    for d in range(3, dep["wildcard"]):
        for a in range(nw):
            out.append(dict(kind="hist_w", first=[a], depth=d))
    for a in range(nw):
        for b in range(nw):
            out.append(dict(kind="hist_w", first=[a, b], depth=dep["wildcard"]))
    for cls in ("a", "ag"):
        na = len(_a_ops(cls))
        for a in range(na):
            out.append(dict(kind="hist_a", cls=cls, first=[a], depth=dep["address"]))
    return out


def run_unit(unit, ctx):
    k = unit["kind"]
    if k == "stray":
        _stray(unit, ctx)
    elif k == "window":
        _window(unit, ctx)
    elif k == "contig":
        _contig(ctx)
    elif k == "limit":
        _limit(unit["limit"], ctx)
    elif k == "limit_arg":
        _limit_arg(ctx)
    elif k == "limit_containers":
        _limit_containers(unit["limit"], ctx)
    elif k == "hist_w":
        _hist(unit, ctx, "w")
    elif k == "hist_a":
        _hist(unit, ctx, unit["cls"])


def replay(case, ctx):
    k = case["kind"]
    if k == "mask":
        _one_mask(case["base"], case["mask"], ctx, case.get("max_ncwb"))
    elif k == "history":
        _run_history(case["cls"], case["ops"], ctx, blind=case.get("blind", False))
    elif k == "limit":
        _limit(case["limit"], ctx)
    elif k == "contig":
        _contig(ctx)
    elif k == "limit_arg":
        _limit_arg(ctx)
    elif k == "limit_containers":
        _limit_containers(case["limit"], ctx)


# ------------------------------------------------------------------------------------ (a) inputs


def _nets(ipnets):
    return [(int(n.network_address), n.prefixlen) for n in ipnets]


def _one_mask(base, mask, ctx, max_ncwb=None):
    from cisco_acl import Wildcard

    case = dict(kind="mask", base=base, mask=mask, max_ncwb=max_ncwb,
                line=f"{S.int2ip(base)} {S.int2ip(mask)}")
    ctx.ev()
    cube = S.cube(base, mask)
    want = S.cube_prefixes(cube)
    r = 0
    while r < 32 and (mask >> r) & 1:
        r += 1
    k = bin(mask >> r).count("1")
    contiguous = (mask & (mask + 1)) == 0
    kwargs = {} if max_ncwb is None else dict(max_ncwb=max_ncwb)
    try:
        obj = Wildcard(case["line"], **kwargs)
    except (ValueError, TypeError) as ex:
        ctx.viol("Wildcard:valid_mask_rejected", case, repr(ex), "accepted")
        return
    got = _nets(obj.ipnets())
    if len(got) != len(set(got)):
        ctx.viol("Wildcard.ipnets:duplicates", case, got[:8], "no duplicates")
    if set(got) != want:
        ctx.viol("Wildcard.ipnets:wrong_set", case, sorted(set(got))[:8], sorted(want)[:8],
                 f"missing={len(want - set(got))} extra={len(set(got) - want)}")
    if len(got) != 1 << k or any(ln != 32 - r for _, ln in got):
        ctx.viol("Wildcard.ipnets:count_or_length", case, (len(got), got[:2]), (1 << k, 32 - r))
    if (obj.ipnet is not None) != contiguous:
        ctx.viol("Wildcard.ipnet:contiguity", case, repr(obj.ipnet), contiguous)
    elif contiguous and (int(obj.ipnet.network_address), obj.ipnet.prefixlen) not in want:
        ctx.viol("Wildcard.ipnet:value", case, repr(obj.ipnet), sorted(want))
    if obj.prefix != S.int2ip(cube[0]) or obj.wildmask != S.int2ip(mask):
        ctx.viol("Wildcard:prefix_or_wildmask", case, (obj.prefix, obj.wildmask),
                 (S.int2ip(cube[0]), S.int2ip(mask)))
    if obj.line != f"{S.int2ip(cube[0])} {S.int2ip(mask)}":
        ctx.viol("Wildcard.line:not_masked", case, obj.line, f"{S.int2ip(cube[0])} {S.int2ip(mask)}")
    if k or (base & mask):
        ctx.nt((base, mask, max_ncwb))
    ctx.out("contiguous_exact" if contiguous else "noncontiguous_exact")


def _stray(unit, ctx):
    r = unit["r"]
    base = _bases(ctx.seed)[unit["base"]]
    low = (1 << r) - 1
    positions = list(range(r + 1, 32))
    for n in range(4):
        for combo in itertools.combinations(positions, n):
            mask = low
            for p in combo:
                mask |= 1 << p
            _one_mask(base, mask, ctx)
    ctx.sample("stray", dict(r=r, base=S.int2ip(base)))


def _window(unit, ctx):
    base = [0, ALL32, SEED_BASES[(ctx.seed + 1) % len(SEED_BASES)]][unit["base"]]
    shift = unit["shift"]
    for m in range(unit["chunk"] * 512, (unit["chunk"] + 1) * 512):
        _one_mask(base, (m << shift) & ALL32, ctx)
    ctx.sample("window", dict(unit, base=S.int2ip(base)))


def _contig(ctx):
    from cisco_acl import Address, AddressAg, Wildcard

    for base in (0x0A0B0C0D, ALL32, 0):
        for ln in range(33):
            wild = (1 << (32 - ln)) - 1 if ln < 32 else 0
            net = base & ~wild & ALL32
            want = [(net, ln)]
            mask = ~wild & ALL32
            case = dict(kind="contig", base=base, length=ln)
            for label, build in (
                ("Wildcard", lambda: Wildcard(f"{S.int2ip(base)} {S.int2ip(wild)}")),
                ("fprefix", lambda: Wildcard.fprefix(f"{S.int2ip(base)}/{ln}")),
                ("fsubnet", lambda: Wildcard.fsubnet(f"{S.int2ip(net)} {S.int2ip(mask)}")),
            ):
                ctx.ev()
                try:
                    obj = build()
                except (ValueError, TypeError) as ex:
                    ctx.viol(f"{label}:rejected", case, repr(ex), "accepted")
                    continue
                got = _nets(obj.ipnets())
                one = obj.ipnet
                if got != want or one is None or _nets([one]) != want:
                    ctx.viol(f"{label}:contiguous_value", case, (got, repr(one)), want)
                ctx.out("contiguous_exact")
            for platform in ("ios", "nxos"):
                for spelling in (f"{S.int2ip(base)} {S.int2ip(wild)}", f"{S.int2ip(base)}/{ln}"):
                    ctx.ev()
                    try:
                        adr = Address(spelling, platform=platform)
                    except (ValueError, TypeError) as ex:
                        ctx.viol("Address:rejected", dict(case, spelling=spelling), repr(ex), "ok")
                        continue
                    views = (
                        _nets(adr.ipnets()) == want,
                        adr.prefixes() == [f"{S.int2ip(net)}/{ln}"],
                        adr.subnets() == [f"{S.int2ip(net)} {S.int2ip(mask)}"],
                        adr.wildcards() == [f"{S.int2ip(net)} {S.int2ip(wild)}"],
                    )
                    if not all(views):
                        ctx.viol("Address:views", dict(case, spelling=spelling, platform=platform),
                                 (adr.prefixes(), adr.subnets(), adr.wildcards()), want)
                    if base & wild:
                        ctx.nt((base, ln, platform, spelling))
                if ln and not (base & wild & 0):  # AddressAg on nxos: prefix member
                    ctx.ev()
                    try:
                        ag = AddressAg(f"{S.int2ip(net)}/{ln}", platform="nxos")
                        if _nets(ag.ipnets()) != want:
                            ctx.viol("AddressAg:views", case, _nets(ag.ipnets()), want)
                    except (ValueError, TypeError) as ex:
                        ctx.viol("AddressAg:rejected", case, repr(ex), "ok")
    # non-contiguous through Address views
    for base, wild in ((0x0A000005, 0x00000103), (0xC0A80101, 0x00FF00FF), (0x01020304, 0x80000000)):
        ctx.ev()
        want = S.cube_prefixes(S.cube(base, wild))
        case = dict(kind="contig", base=base, wild=wild)
        adr = Address(f"{S.int2ip(base)} {S.int2ip(wild)}")
        if set(_nets(adr.ipnets())) != want or adr.ipnet is not None:
            ctx.viol("Address.ipnets:noncontiguous", case, _nets(adr.ipnets())[:6], sorted(want)[:6])
        pre = set(adr.prefixes())
        if pre != {f"{S.int2ip(n)}/{ln}" for n, ln in want}:
            ctx.viol("Address.prefixes:noncontiguous", case, sorted(pre)[:6], sorted(want)[:6])
        ctx.nt((base, wild))
    ctx.sample("contig", "33 lengths x 3 bases x Wildcard/fprefix/fsubnet/Address/AddressAg")


def _mask_with_k(k, placement):
    """A mask with exactly k non-contiguous bits (low run length 0 or 1), three placements."""
    if k == 0:
        return [0x000000FF, 0, 0x00000001][placement]
    if placement == 0:  # bits from the top
        return sum(1 << (31 - i) for i in range(k))
    if placement == 1:  # low run of one bit, stray bits just above a gap
        return 1 | sum(1 << (2 + i) for i in range(min(k, 30)))
    return sum(1 << (1 + ((i * 7) % 31)) for i in range(k)) if k <= 31 else 0


def _limit(limit, ctx):
    from cisco_acl import Wildcard

    ks = sorted({0, max(limit - 1, 0), limit, limit + 1, 31})
    for k in ks:
        for placement in range(3):
            mask = _mask_with_k(k, placement)
            r = 0
            while r < 32 and (mask >> r) & 1:
                r += 1
            real_k = bin(mask >> r).count("1")
            case = dict(kind="limit", limit=limit, mask=mask, line=f"10.1.2.3 {S.int2ip(mask)}")
            ctx.ev()
            ctx.nt((limit, mask))
            try:
                obj = Wildcard(case["line"], max_ncwb=limit)
            except ValueError as ex:
                if real_k <= limit:
                    ctx.viol("Wildcard:limit_rejects_allowed", case, repr(ex),
                             f"k={real_k} <= limit accepted")
                else:
                    ctx.out("limit_rejected")
                continue
            except Exception as ex:  # noqa
                ctx.viol("Wildcard:limit_wrong_exception", case, repr(ex), "ValueError")
                continue
            if real_k > limit:
                n = "?" if real_k > 12 else len(obj.ipnets())
                ctx.viol("Wildcard:limit_not_enforced", case, f"accepted, ipnets={n}",
                         f"rejected: k={real_k} > limit={limit}")
                continue
            ctx.out("limit_accepted")
            if real_k <= 12:
                got = set(_nets(obj.ipnets()))
                if got != S.cube_prefixes(S.cube(0x0A010203, mask)):
                    ctx.viol("Wildcard.ipnets:wrong_set_at_limit", case, len(got), 1 << real_k)
    ctx.sample("limit", dict(limit=limit, ks=ks))


def _limit_arg(ctx):
    from cisco_acl import Address, Wildcard

    for bad, exc in ((-1, ValueError), (31, ValueError), (1000, ValueError), ("5", TypeError),
                     (5.0, TypeError), ([1], TypeError)):
        for label, build in (("Wildcard", lambda b=bad: Wildcard("10.0.0.0 0.0.0.3", max_ncwb=b)),
                             ("Address", lambda b=bad: Address("10.0.0.0 0.0.0.3", max_ncwb=b))):
            ctx.ev()
            ctx.nt((label, repr(bad)))
            case = dict(kind="limit_arg", value=repr(bad), cls=label)
            try:
                build()
            except exc:
                ctx.out("limit_arg_refused")
                continue
            except Exception as ex:  # noqa
                ctx.viol(f"{label}:limit_arg_wrong_exception", case, repr(ex), exc.__name__)
                continue
            ctx.viol(f"{label}:limit_arg_accepted", case, "accepted", exc.__name__)
    # Address passes the limit down
    for limit, line, ok in ((0, "10.0.0.0 0.0.1.0", False), (1, "10.0.0.0 0.0.1.0", True),
                            (1, "10.0.0.0 0.0.5.0", False), (2, "10.0.0.0 0.0.5.0", True)):
        ctx.ev()
        case = dict(kind="limit_arg", limit=limit, line=line)
        try:
            Address(line, max_ncwb=limit)
            accepted = True
        except ValueError:
            accepted = False
        if accepted != ok:
            ctx.viol("Address:limit_not_passed_down", case, accepted, ok)


CONTAINER_LIMITS = [0, 1, 2, 4, 16, 17, 20, 30]
CONTAINER_MASKS = {0: "0.0.0.255", 1: "0.0.1.0", 2: "0.0.3.0", 3: "0.0.5.4", 5: "0.0.31.0",
                   17: "1.255.255.0", 18: "3.255.255.0"}


def _container_sites(platform, wild, limit):
    """(label, builder) - the builder returns the list of address objects that carry the mask, or
    raises ValueError when the line is refused / dropped."""
    import cisco_acl
    from cisco_acl import Ace, AceGroup, Acl, AddrGroup, Address, AddressAg

    adr = f"10.1.2.0 {wild}"
    kw = dict(platform=platform, max_ncwb=limit)
    head = "ip access-list extended A" if platform == "ios" else "ip access-list A"
    ghead, gref = ("object-group network G", "object-group G") if platform == "ios" else \
        ("object-group ip address G", "addrgroup G")

    def need(items):
        if not items:
            raise ValueError("line dropped")
        return items

    def aces_of(items):
        out = []
        for o in items:
            out.extend(aces_of(o.items) if hasattr(o, "items") and not isinstance(o, Ace) else [o])
        return [o for o in out if isinstance(o, Ace)]

    sites = [
        ("Address", lambda: [Address(adr, **kw)]),
        ("Ace.src", lambda: [Ace(f"permit ip {adr} any", **kw).srcaddr]),
        ("Ace.dst", lambda: [Ace(f"permit tcp any {adr} eq 80", **kw).dstaddr]),
        ("AceGroup", lambda: [a.srcaddr for a in need(aces_of(AceGroup(f"permit ip {adr} any", **kw).items))]),
        ("Acl", lambda: [a.dstaddr for a in need(aces_of(Acl(f"{head}\n permit ip any {adr}", **kw).items))]),
        ("Acl.grouped", lambda: [a.srcaddr for a in need(aces_of(
            Acl(f"{head}\n remark = x\n permit ip {adr} any", group_by="= ", **kw).items))]),
        ("acls", lambda: [a.srcaddr for a in need(aces_of(
            cisco_acl.acls(f"{head}\n permit ip {adr} any", **kw)[0].items))]),
        ("acls.group_by", lambda: [a.srcaddr for a in need(aces_of(
            cisco_acl.acls(f"{head}\n remark = x\n permit ip {adr} any", group_by="= ", **kw)[0].items))]),
        ("aces", lambda: [a.srcaddr for a in need(aces_of(
            cisco_acl.aces(f"{head}\n permit ip {adr} any", **kw)))]),
    ]
    if platform == "ios":
        sites.append(("Acl.standard", lambda: [a.srcaddr for a in need(aces_of(
            Acl(f"ip access-list standard A\n permit {adr}", **kw).items))]))
    if platform == "nxos":  # IOS group members are subnet masks: no non-contiguous form exists
        sites += [
            ("AddressAg", lambda: [AddressAg(f"10 {adr}", **kw)]),
            ("AddrGroup", lambda: need(AddrGroup(f"{ghead}\n 10 {adr}", **kw).items)),
            ("AddrGroup.items", lambda: need(AddrGroup(name="G", items=[f"10 {adr}"], **kw).items)),
            ("addrgroups", lambda: need(need(cisco_acl.addrgroups(f"{ghead}\n 10 {adr}", **kw))[0].items)),
            ("acls.members", lambda: need(need(aces_of(cisco_acl.acls(
                f"{ghead}\n 10 {adr}\n{head}\n permit ip {gref} any", **kw)[0].items))[0].srcaddr.items)),
            ("acls.members.group_by", lambda: need(need(aces_of(cisco_acl.acls(
                f"{ghead}\n 10 {adr}\n{head}\n remark = x\n permit ip any {gref}", group_by="= ",
                **kw)[0].items))[0].dstaddr.items)),
        ]
    return sites


def _limit_containers(limit, ctx):
    """The configured limit reaches every place where a mask is read: a container built with
    max_ncwb=L accepts a line whose mask needs k non-contiguous bits iff k <= L, the accepted address
    carries the limit L, and (small k) derives exactly 2^k prefixes."""
    for platform in ("ios", "nxos"):
        for k, wild in CONTAINER_MASKS.items():
            for label, build in _container_sites(platform, wild, limit):
                ctx.ev()
                ctx.nt((platform, label, limit, k))
                case = dict(kind="limit_containers", limit=limit, platform=platform, site=label,
                            mask=wild, k=k)
                try:
                    objs = build()
                except ValueError as ex:
                    if k <= limit:
                        ctx.viol(f"{label}:limit_rejects_allowed", case, repr(ex)[:200],
                                 f"k={k} <= limit={limit}: accepted")
                    else:
                        ctx.out("limit_rejected")
                    continue
                except Exception as ex:  # noqa
                    ctx.viol(f"{label}:limit_wrong_exception", case, repr(ex)[:200], "ValueError")
                    continue
                if k > limit:
                    ctx.viol(f"{label}:limit_not_enforced", case, "accepted",
                             f"rejected: k={k} > limit={limit}")
                    continue
                ctx.out("limit_accepted")
                for o in objs:
                    if o.max_ncwb != limit:
                        ctx.viol(f"{label}:limit_not_passed_down", case, o.max_ncwb, limit)
                        break
                    if k <= 5:
                        got = set(_nets(o.ipnets()))
                        want = S.cube_prefixes(S.cube(S.ip2int("10.1.2.0"), S.ip2int(wild)))
                        if got != want:
                            ctx.viol(f"{label}:wrong_prefix_set", case, len(got), len(want))
                            break
    ctx.sample("limit_containers", dict(limit=limit, masks=CONTAINER_MASKS))


# --------------------------------------------------------------------------------- (b) histories

W_LINES = ["10.0.0.0 0.0.0.3", "10.0.0.0 0.0.0.1",    # same base, shorter contiguous tail
           "20.0.0.5 0.0.1.0", "60.0.0.5 0.0.1.0",    # same mask, other base
           "30.0.0.0 0.0.7.1", "30.0.0.0 0.0.7.3",    # same base and stray bits, longer tail
           "40.0.0.0 0.0.31.0",                       # over the limit for small limits
           "50.0.0.0 0.0.0.256"]                      # invalid


def _w_ops():
    ops = [("line", ln) for ln in W_LINES]
    ops += [("max_ncwb", v) for v in (0, 2, 16)]
    ops += [("q", q) for q in ("ipnets", "ipnet", "line", "prefix", "wildmask", "data")]
    ops += [("q_edit", "ipnets")]  # the caller edits the list it got back
    return ops


A_LINES = {
    "a": ["any", "host 10.0.0.1", "10.0.0.0/30", "20.0.0.0 0.0.3.3", "object-group G",
          "30.0.0.0 0.0.0.255", "bad line", "21.0.0.0 0.0.3.3", "20.0.0.0 0.0.3.1"],
    "ag": ["host 10.0.0.1", "10.0.0.0/30", "20.0.0.0 255.255.255.0", "10 30.0.0.0/24",
           "40.0.0.0 0.0.3.3", "bad line"],
}


def _a_ops(cls):
    ops = [("line", ln) for ln in A_LINES[cls]]
    ops += [("prefix", p) for p in ("50.0.0.0/25", "50.0.0.9/32")]
    ops += [("platform", p) for p in ("ios", "nxos")]
    ops += [("max_ncwb", v) for v in (1, 16)]
    # attach group members (meaningful while the line is a group reference; they stay attached)
    ops += [("items", ("10.0.0.0 0.0.1.3", "host 10.9.9.9") if cls == "a" else ("host 10.9.9.9",))]
    if cls == "ag":
        ops += [("line", "group-object G")]
    ops += [("q", q) for q in ("ipnets", "prefixes", "subnets", "wildcards", "ipnet", "line")]
    ops += [("q_edit", q) for q in ("ipnets", "prefixes")]
    return ops


def _observe(cls, obj):
    """Everything derived from the line that a user can read."""
    if cls == "w":
        return dict(line=obj.line, prefix=obj.prefix, wildmask=obj.wildmask,
                    ipnet=repr(obj.ipnet), ipnets=_nets(obj.ipnets()))
    # spelling (`line`, `type`) is C06's business; C05 compares the derived address values
    out = dict(ipnet=repr(obj.ipnet), prefix=obj.prefix,
               subnet=obj.subnet, wildcard=obj.wildcard, addrgroup=obj.addrgroup)
    for name in ("ipnets", "prefixes", "subnets", "wildcards"):
        try:
            val = getattr(obj, name)()
            out[name] = _nets(val) if name == "ipnets" else val
        except (TypeError, ValueError) as ex:
            out[name] = type(ex).__name__
    return out


def _fresh(cls, obj):
    from cisco_acl import Address, AddressAg, Wildcard

    if cls == "w":
        return Wildcard(obj.line, max_ncwb=30)
    klass = Address if cls == "a" else AddressAg
    if obj.addrgroup:
        # a group reference denotes its attached members: the fresh object gets the same members
        return klass(obj.line, platform=obj.platform, max_ncwb=30, items=[m.line for m in obj.items])
    try:
        return klass(obj.line, platform=obj.platform, max_ncwb=30)
    except ValueError:
        # a refused platform change may leave the platform attribute ahead of the spelling
        # (C02/C17 territory); C05 only needs the meaning of the current line
        other = "ios" if obj.platform == "nxos" else "nxos"
        return klass(obj.line, platform=other, max_ncwb=30)


def _new(cls):
    from cisco_acl import Address, AddressAg, Wildcard

    if cls == "w":
        return Wildcard("1.0.0.0 0.0.2.1")
    if cls == "a":
        return Address("1.0.0.0 0.0.2.1")
    return AddressAg("1.0.0.0 0.0.2.1", platform="nxos")


def _apply(cls, obj, op):
    """Apply one operation; return 'ok' | 'refused'."""
    name, arg = op
    try:
        if name == "line":
            obj.line = arg
        elif name == "prefix":
            obj.prefix = arg
        elif name == "max_ncwb":
            obj.max_ncwb = arg
        elif name == "platform":
            obj.platform = arg
        elif name == "items":
            obj.items = list(arg)
        elif name == "q":
            val = getattr(obj, arg)
            if callable(val):
                val()
        elif name == "q_edit":
            # a returned list belongs to the caller: editing it must not reach the object
            val = getattr(obj, arg)()
            if isinstance(val, list) and len(val) > 1:
                val.pop()
                val.append(val[0])
    except (ValueError, TypeError):
        return "refused"
    return "ok"


def _run_history(cls, ops, ctx, record=True, blind=False):
    """blind: nothing is read from the object between the steps (a derived value computed early
    can hide what a later step left behind); the invariant is checked after the last step only."""
    obj = _new(cls)
    case = dict(kind="history", cls=cls, ops=[list(o) for o in ops], blind=blind)
    for i, op in enumerate(ops):
        op = tuple(op)
        before_line = "" if blind else obj.line
        try:
            res = _apply(cls, obj, op)
        except Exception as ex:  # noqa - anything but the documented errors
            ctx.viol(f"{_cname(cls)}:history_unexpected_exception", dict(case, step=i), repr(ex),
                     "documented ValueError/TypeError or success")
            return
        ctx.trans()
        if blind and i < len(ops) - 1:
            if res == "refused" and op[0] not in ("line", "prefix"):
                return
            continue
        if res == "ok" and cls != "w" and obj.addrgroup and obj.items:
            ctx.out("hist_group_with_members")
        if res == "refused" and op[0] not in ("line", "prefix"):
            # C05 speaks about a refused LINE assignment; what a refused platform change leaves
            # behind (e.g. after max_ncwb was lowered below what the current line needs) is
            # outside this property - the history ends here
            ctx.out("hist_refused_other_op")
            return
        try:
            now_line = obj.line
            have = _observe(cls, obj)
            want = _observe(cls, _fresh(cls, obj))
        except Exception as ex:  # noqa
            ctx.viol(f"{_cname(cls)}:history_object_unreadable", dict(case, step=i), repr(ex),
                     "object readable and its line re-parsable")
            return
        ctx.state((cls, sorted(have.items(), key=str), getattr(obj, "max_ncwb", None),
                   getattr(obj, "platform", None)))
        # a successful line assignment never leaves more stray bits than the configured limit
        if res == "ok" and op[0] in ("line", "prefix"):
            wl = now_line if cls == "w" else getattr(obj, "wildcard", "")
            parts = wl.split()
            if len(parts) == 2:
                mask = S.ip2int(parts[1])
                r = 0
                while r < 32 and (mask >> r) & 1:
                    r += 1
                need = bin(mask >> r).count("1")
                if need > obj.max_ncwb:
                    ctx.viol(f"{_cname(cls)}:limit_not_enforced_on_assignment",
                             dict(case, step=i, op=list(op)), dict(line=wl, needs=need),
                             f"refused: limit is {obj.max_ncwb}")
                    return
        if res == "refused":
            ctx.out("hist_refused_assignment")
            if op[0] in ("line", "prefix") and now_line != before_line:
                # allowed only if the object consistently describes the new line
                pass
        if have != want:
            diff = {k: (have[k], want[k]) for k in have if have[k] != want[k]}
            kind = "after_refused_assignment" if res == "refused" else "stale_or_inconsistent"
            ctx.viol(f"{_cname(cls)}:{kind}", dict(case, step=i, op=list(op)),
                     {k: v[0] for k, v in diff.items()}, {k: v[1] for k, v in diff.items()},
                     f"after step {i} {op} (result {res}) derived values differ from a fresh "
                     f"object built from line {now_line!r}")
            return
        ctx.out("hist_step_ok")
    if record:
        ctx.trace()


def _cname(cls):
    return dict(w="Wildcard", a="Address", ag="AddressAg")[cls]


def _hist(unit, ctx, cls):
    ops = _w_ops() if cls == "w" else _a_ops(cls)
    first = [ops[i] for i in unit["first"]]
    rest = unit["depth"] - len(first)
    n = 0
    for suffix in itertools.product(ops, repeat=rest):
        hist = first + list(suffix)
        ctx.ev()
        n += 1
        # non-trivial: a query or mutation follows a line change (staleness can show)
        if any(o[0] in ("line", "prefix") for o in hist[:-1]):
            ctx.nt_count()
        _run_history(cls, hist, ctx)
        if hist[-1][0] in ("line", "prefix", "max_ncwb", "items") and \
                not any(o[0].startswith("q") for o in hist):
            _run_history(cls, hist, ctx, record=False, blind=True)
            ctx.out("hist_blind")
    ctx.add(f"histories_{cls}", n)
    # determinism self-check: the first history replayed twice must give identical observations
    from vf.ctx import Ctx

    c1, c2 = Ctx(), Ctx()
    h = first + [ops[0]] * rest
    _run_history(cls, h, c1, record=False)
    _run_history(cls, h, c2, record=False)
    if (c1.states, sorted(c1.violations)) != (c2.states, sorted(c2.violations)):
        from vf.ctx import HarnessError

        raise HarnessError(f"non-deterministic replay of {h}")
    ctx.sample(f"history_{cls}", [list(o) for o in hist])
