"""C15 - grouping, ungrouping and sorting never lose, duplicate or split entries.

State space: an ACL (every sequence of <= N items over an 8-item alphabet of headings, remarks and
ACEs) x prefix, operated by group(p) / ungroup() / resequence / every permutation of the top-level
items (list methods) / sort() / reverse().  Invariants are checked in every state.
"""
from __future__ import annotations

from itertools import permutations, product

from vf.gen import alpha as G
from vf.gen import programs as PR

ID = "C15"
LEVEL = "model_checking"
RULE = ("every item sequence (with repetition) up to the stated length x 4 prefixes; from each, the "
        "operation script group -> ungroup -> group -> resequence -> EVERY permutation of the top-level "
        "items followed by sort() (also on the flat ACL); a state is (block structure, lines in order), a "
        "transition one public operation on the real object; non-trivial = ACLs with >= 2 blocks after "
        "grouping; traces = complete scripts replayed on a real Acl")
ASSUMPTIONS = ["with a repeated heading text only conservation of the ACE multiset is required "
               "(C15's wording); remarks may merge", "TCAM formula as stated in C15"]
REQUIRED = ["grouped_2plus_blocks", "text_unchanged_by_group_ungroup", "permutation_moved_block",
            "sort_restored", "tcam_with_group_members", "heading_only_block", "no_leading_heading",
            "mixed_list_regrouped", "marker_blocks", "indent_blocks", "refused_group_left_acl_unchanged", "foreign_ok"]
PREFIXES = ["= ", "=", "x", ""]


# heading markers with regular-expression metacharacters, each with a plain remark that a pattern
# reading of the marker would match although it does not start with the marker
MARKERS = [("*** ", "** x"), ("+++ ", "++ x"), ("[DMZ] ", "D zone"), ("(core) ", "core x"),
           ("v1.", "v10 legacy"), ("a|b ", "a x"), ("$ ", " x"), ("\\d ", "1 x"), ("= ", "=x")]
INDENTS = [" ", "    ", "\t", ""]


def items(seed, marker="= ", near="plain =text"):
    al = {a.label: a for a in G.addr_alphabet(seed)}
    gr = {a.group: a for a in G.group_alphabet(seed)}
    none = G.PortX()
    X, I = G.AceX, PR.Item  # noqa
    return [
        I("h1", None, f"{marker}alpha, x"), I("h2", None, f"{marker}beta"),
        I("h1_again", None, f"{marker}alpha, x"),
        I("remark", None, near), I("remark_eq", None, "=separator"),
        I("ace1", X("permit", 0, al["host1"], none, al["any"], none)),
        I("ace2", X("deny", 6, al["any"], none, al["net24"], G.PortX("eq", (80,)))),
        I("ace3", X("permit", 17, al["net30"], none, al["any"], none, (), ("log",))),
        I("ace_grp", X("permit", 0, gr["GH"], none, gr["G3"], none)),
        I("ace_grp_src", X("deny", 0, gr["G3"], none, al["any"], none)),
        I("ace_grp_dst", X("permit", 1, al["any"], none, gr["GH"], none)),
    ]


def _N(tier):
    return 4 if tier == "quick" else 5


def describe(tier, seed):
    return dict(max_items=_N(tier), alphabet=[i.text("ios") for i in items(seed)], prefixes=PREFIXES,
                permutations="all permutations of the top-level items (<= 5! per state)")


MARK_SUB = [0, 1, 3, 5, 6]  # h1, h2, near-miss remark, two entries


def units(tier, seed):
    n = len(items(seed))
    out = [dict(first=None)]
    for mi in range(len(MARKERS)):
        out.append(dict(kind="markers", marker=mi))
    for ii in range(len(INDENTS)):
        out.append(dict(kind="indents", indent=ii))
    out.append(dict(kind="refused"))
    out.append(dict(kind="foreign"))
    for a in range(n):
        for b in range(n):
            out.append(dict(first=[a, b]))
    return out


def run_unit(unit, ctx):
    n = len(items(ctx.seed))
    if unit.get("kind") == "markers":
        # group_by is plain text, whatever characters it contains
        marker, _near = MARKERS[unit["marker"]]
        for ln in range(1, (4 if ctx.tier == "quick" else 5) + 1):
            for idx in product(MARK_SUB, repeat=ln):
                for p in (marker, marker.rstrip()) if marker.rstrip() != marker else (marker,):
                    script(idx, p, ctx, "ios" if sum(idx) % 2 else "nxos", marker=unit["marker"])
        return
    if unit.get("kind") == "refused":
        _refused(ctx)
        return
    if unit.get("kind") == "foreign":
        _foreign(ctx)
        return
    if unit.get("kind") == "indents":
        # the indentation setting is part of the text that grouping must leave unchanged
        for ln in range(1, 5):
            for idx in product(MARK_SUB, repeat=ln):
                script(idx, "= ", ctx, "ios" if sum(idx) % 2 else "nxos", indent=INDENTS[unit["indent"]])
        return
    if unit["first"] is None:
        for a in range(n):
            for p in PREFIXES:
                script((a,), p, ctx)
        return
    first = tuple(unit["first"])
    for ln in range(2, _N(ctx.tier) + 1):
        for rest in product(range(n), repeat=ln - 2):
            for pi, p in enumerate(PREFIXES):
                if ln >= 4 and pi >= 2 and ctx.tier == "quick":
                    continue
                script(first + rest, p, ctx, "ios" if (sum(rest) + pi) % 3 else "nxos")
    ctx.sample("acl", dict(idx=list(first + rest)))


def _foreign(ctx):
    """Entries that came from elsewhere: an entry whose own numeric switches differ from the
    ACL's, and one entry OBJECT appended to two blocks - grouping and ungrouping still neither
    change the text nor lose an entry."""
    from cisco_acl import Ace

    its = items(ctx.seed)
    for plat in ("ios", "nxos"):
        for ln in (1, 2, 3, 4):
            for idx in product(MARK_SUB, repeat=ln):
                lst = [its[i] for i in idx]
                if not any(i.is_ace for i in lst):
                    continue
                heads = [i.remark for i in lst if not i.is_ace and i.remark.startswith("= ")]
                if len(set(heads)) != len(heads):
                    continue
                for switch in ("port_nr", "protocol_nr"):
                    ctx.ev()
                    case = dict(kind="foreign", platform=plat, idx=list(idx), switch=switch)
                    try:
                        acl = PR.build_acl(lst, plat)
                        for o in acl.items:
                            if isinstance(o, Ace):
                                setattr(o, switch, True)
                        text0 = acl.line
                        acl.group("= ")
                        t1 = acl.line
                        acl.ungroup()
                        t2 = acl.line
                    except Exception as ex:  # noqa
                        ctx.viol("foreign:exception", case, repr(ex), "group/ungroup succeed")
                        continue
                    if (t1, t2) != (text0, text0):
                        ctx.viol("Acl.group:text_changed_for_entries_with_own_switches", case, (t1, t2), text0)
                    else:
                        ctx.out("foreign_ok")
                if len(heads) >= 2:
                    ctx.ev()
                    case = dict(kind="foreign", platform=plat, idx=list(idx), shared_object=True)
                    try:
                        acl = PR.build_acl(lst, plat, group_by="= ")
                        blocks_ = [o for o in acl.items if hasattr(o, "items") and not isinstance(o, Ace)]
                        shared = Ace("permit icmp any any", platform=plat)
                        n0 = len(PR.flat_lines(acl))
                        blocks_[0].append(shared)
                        blocks_[-1].append(shared)
                        grouped = PR.flat_lines(acl)
                        acl.ungroup()
                        flat = PR.flat_lines(acl)
                    except Exception as ex:  # noqa
                        ctx.viol("foreign:shared_exception", case, repr(ex), "ungroup succeeds")
                        continue
                    if len(grouped) != n0 + 2 or flat != grouped:
                        ctx.viol("Acl.ungroup:entry_held_by_two_blocks_lost", case, flat, grouped)
                    else:
                        ctx.out("foreign_ok")
    ctx.sample("foreign", dict(switches=["port_nr", "protocol_nr"]))


def _refused(ctx):
    """group() refuses a heading longer than a block name may be (ValueError): a refused call leaves
    the ACL exactly as it was - text, blocks, prefix - whether it was flat or grouped before."""
    from cisco_acl import Acl

    long_head = "= " + "x" * 101
    lines = ["remark = a", "permit tcp any any eq 80", "remark " + long_head, "deny ip any any",
             "remark = b", "permit icmp any any", "remark =c", "permit udp any any"]
    from itertools import permutations as _perm

    for plat in ("ios", "nxos"):
        for n in (2, 3, 4):
            for idx in _perm(range(len(lines)), n):
                if 2 not in idx:
                    continue
                for pre in ("", "=", "x"):
                    ctx.ev()
                    case = dict(kind="refused", platform=plat, lines=[lines[i] for i in idx], pregrouped=pre)
                    acl = Acl(PR.header(plat) + "\n" + "\n".join(" " + lines[i] for i in idx), platform=plat)
                    try:
                        if pre:
                            acl.group(pre)
                        before = (acl.line, PR.blocks(acl), acl.group_by, acl.tcam_count())
                        acl.group("= ")
                        ctx.out("long_heading_accepted")
                        continue
                    except ValueError:
                        pass
                    except Exception as ex:  # noqa
                        ctx.viol("Acl.group:undocumented_exception", case, repr(ex), "ValueError or success")
                        continue
                    after = (acl.line, PR.blocks(acl), acl.group_by, acl.tcam_count())
                    if after != before:
                        ctx.viol("Acl.group:refused_call_modified_the_acl", case, after, before)
                    else:
                        ctx.out("refused_group_left_acl_unchanged")
    ctx.sample("refused", dict(heading_length=len(long_head)))


def replay(case, ctx):
    if case.get("kind") == "refused":
        _refused(ctx)
        return
    script(tuple(case["idx"]), case["prefix"], ctx, case.get("platform", "ios"),
           marker=case.get("marker"), indent=case.get("indent"))


def _tcam_model(lst):
    total = 1
    for it in lst:
        if it.is_ace:
            total += (len(it.acex.src.members) or 1 if it.acex.src.group else 1) * \
                     (len(it.acex.dst.members) or 1 if it.acex.dst.group else 1)
    return total


def _ace_multiset(acl):
    return sorted(PR.strip_seq(ln) for ln in PR.flat_lines(acl) if not PR.strip_seq(ln).startswith("remark"))


def script(idx, prefix, ctx, platform="ios", marker=None, indent=None):
    its = items(ctx.seed) if marker is None else items(ctx.seed, *MARKERS[marker])
    lst = [its[i] for i in idx]
    ctx.ev()
    case = dict(kind="script", idx=list(idx), prefix=prefix, platform=platform,
                lines=[i.text(platform) for i in lst], marker=marker, indent=indent)
    kw = {} if indent is None else dict(indent=indent)
    try:
        acl = PR.build_acl(lst, platform, **kw)
        if indent is not None and acl.indent != indent:
            raise AssertionError(f"harness: indent {acl.indent!r}")
    except Exception as ex:  # noqa
        ctx.viol("harness:build", case, repr(ex), "built")
        return
    tcam = _tcam_model(lst)
    aces0 = _ace_multiset(acl)
    text0 = acl.line
    heads = [i.remark for i in lst if not i.is_ace and prefix and i.remark.startswith(prefix)]
    distinct = len(set(heads)) == len(heads)

    def state(label):
        ctx.trans()
        ctx.state((tuple(PR.blocks(acl) and [(b[0], tuple(b[1])) for b in PR.blocks(acl)])))
        got = acl.tcam_count()
        if got != tcam:
            ctx.viol("Acl.tcam_count:differs_from_formula", dict(case, after=label), got, tcam)
            return False
        if _ace_multiset(acl) != aces0:
            ctx.viol(f"{label}:ace_multiset_changed", dict(case, after=label), _ace_multiset(acl), aces0)
            return False
        return True

    try:
        if not state("build"):
            return
        acl.group(prefix)
        if not state("group"):
            return
        if distinct and acl.line != text0:
            ctx.viol("Acl.group:text_changed", case, acl.line, text0)
            return
        nblocks = len(acl.items)
        blocks = PR.blocks(acl)
        if distinct:
            # block structure predicted from the item list: a block starts at every heading, the
            # items before the first heading form one block, no prefix = no blocks
            sizes = []
            for it in lst:
                is_head = bool(prefix) and not it.is_ace and it.remark.startswith(prefix)
                if not prefix or is_head or not sizes:
                    sizes.append(1)
                else:
                    sizes[-1] += 1
            if [len(lines) for _n, lines in blocks] != sizes:
                ctx.viol("Acl.group:block_structure", case, [len(lines) for _n, lines in blocks], sizes)
                return
            if marker is not None and len(sizes) > 1:
                ctx.out("marker_blocks")
            if indent is not None and len(sizes) > 1:
                ctx.out("indent_blocks")
        if prefix and prefix != "x":
            # every block except possibly the first starts with its heading; inner order intact
            flat = [ln for _n, lines in blocks for ln in lines]
            if distinct and flat != PR.flat_lines(acl):
                ctx.viol("Acl.group:block_lines", case, flat, PR.flat_lines(acl))
                return
        acl.ungroup()
        if not state("ungroup"):
            return
        if distinct and acl.line != text0:
            ctx.viol("Acl.ungroup:text_changed", case, acl.line, text0)
            return
        if distinct:
            ctx.out("text_unchanged_by_group_ungroup")
        for grouped in (True, False):
            if grouped:
                acl.group(prefix)
            else:
                acl.ungroup()
            # 5, 10, 15, ...: numbers of different width (a textual order would differ)
            acl.resequence(5, 5)
            if not state("resequence"):
                return
            numbered = acl.line
            top = list(acl.items)
            if len(top) > 5:
                continue
            block_text = {id(o): ([i.line for i in o.items] if hasattr(o, "items") else [o.line])
                          for o in top}
            for perm in permutations(range(len(top))):
                rank = {id(top[j]): r for r, j in enumerate(perm)}
                acl.items.sort(key=lambda o: rank[id(o)])
                ctx.trans()
                want = [ln for j in perm for ln in block_text[id(top[j])]]
                if PR.flat_lines(acl) != want:
                    ctx.viol("permutation:block_split_or_inner_order_changed",
                             dict(case, perm=list(perm), grouped=grouped), PR.flat_lines(acl), want)
                    return
                if acl.tcam_count() != tcam:
                    ctx.viol("Acl.tcam_count:changed_by_reordering", dict(case, perm=list(perm)),
                             acl.tcam_count(), tcam)
                    return
                acl.sort()
                ctx.trans()
                if acl.line != numbered:
                    ctx.viol("Acl.sort:numbered_order_not_restored",
                             dict(case, perm=list(perm), grouped=grouped), acl.line, numbered)
                    return
                if list(perm) != sorted(perm) and grouped and len(top) > 1:
                    ctx.out("permutation_moved_block")
            ctx.out("sort_restored")
            acl.reverse()
            acl.sort()
            if acl.line != numbered:
                ctx.viol("Acl.sort:after_reverse", dict(case, grouped=grouped), acl.line, numbered)
                return
        # an address re-pointed from a group reference to a plain address counts 1
        grp_aces = [it for it in lst if it.is_ace and it.acex.src.group and it.acex.src.members]
        if grp_aces:
            from cisco_acl import Ace as _Ace

            acl3 = PR.build_acl(lst, platform)
            want = tcam
            for o, it in zip([x for x in acl3.items if isinstance(x, _Ace)], [i for i in lst if i.is_ace]):
                if it.acex.src.group and it.acex.src.members:
                    o.srcaddr.line = "host 10.9.9.9"
                    dst_n = (len(it.acex.dst.members) or 1) if it.acex.dst.group else 1
                    want += dst_n - len(it.acex.src.members) * dst_n
            ctx.trans()
            if acl3.tcam_count() != want:
                ctx.viol("Acl.tcam_count:plain_address_counted_with_stale_members", case,
                         acl3.tcam_count(), want)
                return
            ctx.out("tcam_after_repointing")
        # a loose entry appended to a grouped ACL, then group() again: with distinct headings the
        # text must not change (the loose entry joins the last block, nothing moves)
        if prefix and distinct and heads:
            from cisco_acl import Ace

            acl2 = PR.build_acl(lst, platform, **kw)
            acl2.group(prefix)
            acl2.append(Ace("permit icmp any any", platform=platform))
            before = PR.flat_lines(acl2)
            acl2.group(prefix)
            ctx.trans()
            if PR.flat_lines(acl2) != before:
                ctx.viol("Acl.group:text_changed_on_mixed_list", case, PR.flat_lines(acl2), before)
                return
            ctx.out("mixed_list_regrouped")
    except Exception as ex:  # noqa
        ctx.viol("script:unexpected_exception", case, repr(ex), "operations succeed")
        return
    ctx.trace()
    if nblocks >= 2 and prefix and prefix != "x":
        ctx.out("grouped_2plus_blocks")
        ctx.nt((tuple(idx), prefix, platform))
    if any(i.label.startswith("ace_grp") for i in lst):
        ctx.out("tcam_with_group_members")
    if any(len(lines) == 1 and name for name, lines in blocks):
        ctx.out("heading_only_block")
    if lst and lst[0].is_ace and heads:
        ctx.out("no_leading_heading")
