"""C12 - no rule line is lost without a trace when objects are built from text.

Every line sequence of length <= L over a 13-line alphabet (valid ACEs, remark, the three
documented ignorable lines, ACL-looking invalid lines, a non-ACL line, an over-limit wildcard
line, a blank line) under Acl(line=) and AceGroup(line=); the member-line analogue for
AddrGroup(line=) and AddrGroup(items=); both platforms; root logger captured at DEBUG.
"""
from __future__ import annotations

import logging
from itertools import product

from vf.lib import capture_logs
from vf.refsem.packets import Remark, same_packets
from vf.refsem.reader import Reader, Reject

ID = "C12"
LEVEL = "exploration"
RULE = ("every sequence (with repetition) of body lines up to the stated length x class x platform; "
        "non-trivial = distinct (class, platform, sequence) that mixes at least one valid line with at "
        "least one invalid or ignorable line")
ASSUMPTIONS = [
    "'reported' = a record on the root logger that contains the (blank-normalised) line text: level "
    ">= WARNING for Acl/AceGroup, any level for address groups (C12's wording)",
    "construction failing with ValueError/TypeError accounts for every line, but is not allowed when "
    "all lines are valid or ignorable",
]
REQUIRED = ["built", "construction_failed", "invalid_reported", "ignorable_skipped", "mixed_ok",
            "addrgroup_built", "addrgroup_invalid_reported", "via_built", "via_failed"]

VALID = ["permit ip any any", "deny tcp host 10.0.0.1 any eq 80", "10 permit udp any any",
         "remark some text",
         # valid lines that merely CONTAIN an ignorable keyword / an action word
         "remark ignore this rule until description is updated", "20 remark statistics per-entry",
         # valid lines longer than 100 characters
         "permit tcp 10.123.123.0 0.0.0.255 range 1024 65535 10.234.234.0 0.0.0.255 range 10000 20000 ack syn log-input",
         "remark " + "long text " * 11]
IGNORABLE = ["statistics per-entry", "description some acl", "ignore this"]
INVALID = ["permit ip any", "deny tcp any any eq", "permit foo any any", "interface Ethernet1/1"]
OVERLIMIT = ["permit ip 10.0.0.0 0.255.255.254 any"]
BLANK = ["   "]
ALPHABET = VALID + IGNORABLE + INVALID + OVERLIMIT + BLANK

AG = dict(
    ios=dict(valid=["host 10.0.0.1", "10.0.0.0 255.255.255.0", "group-object OTHER"],
             ignorable=["description text"],
             invalid=["foo bar", "10.0.0.0 0.0.0.255", "host 1.1.1", "10.0.0.0 255.0.255.0"]),
    nxos=dict(valid=["host 10.0.0.1", "10.0.0.0/24", "10 host 10.0.0.2", "20.0.0.0 0.0.3.3"],
              ignorable=["description text"],
              invalid=["foo bar", "group-object X", "host 1.1.1", "10.0.0.0 0.255.255.254"]),
)


def _L(tier):
    return 3 if tier == "quick" else 4


def describe(tier, seed):
    return dict(max_len=_L(tier), alphabet=ALPHABET, addrgroup_alphabet=AG)


def units(tier, seed):
    out = []
    for plat in ("ios", "nxos"):
        for cls in ("Acl", "AceGroup"):
            out.append(dict(kind="acl", cls=cls, platform=plat, first=None))
            for a in range(len(ALPHABET)):
                out.append(dict(kind="acl", cls=cls, platform=plat, first=a))
        for via in ("line", "items", "addrgroups:\t", "addrgroups:  "):
            out.append(dict(kind="ag", platform=plat, via=via))
    return out


def run_unit(unit, ctx):
    if unit["kind"] == "acl":
        if unit["first"] is None:
            check_acl(unit["cls"], unit["platform"], (), ctx)
            for a in range(len(ALPHABET)):
                check_acl(unit["cls"], unit["platform"], (a,), ctx)
            return
        for n in range(2, _L(ctx.tier) + 1):
            for rest in product(range(len(ALPHABET)), repeat=n - 1):
                check_acl(unit["cls"], unit["platform"], (unit["first"],) + rest, ctx)
                if n <= 3:
                    for via in VIAS:
                        if via.startswith("acls:") and unit["cls"] != "Acl":
                            continue
                        check_acl(unit["cls"], unit["platform"], (unit["first"],) + rest, ctx, via=via)
        ctx.sample("acl", dict(cls=unit["cls"], platform=unit["platform"],
                               lines=[ALPHABET[i] for i in (unit["first"],) + rest]))
    else:
        _ag(unit, ctx)


def replay(case, ctx):
    if case["kind"] == "acl":
        check_acl(case["cls"], case["platform"], tuple(case["idx"]), ctx, via=case.get("via", "text"))
    else:
        check_ag(case["platform"], case["via"], case["lines"], ctx)


def _norm(s):
    return " ".join(s.split())


VIAS = ["items", "acls:\t", "acls: ", "acls:   "]


def check_acl(cls, platform, idx, ctx, via="text"):
    import cisco_acl
    from cisco_acl import AceGroup, Acl

    lines = [ALPHABET[i] for i in idx]
    if via != "text":
        lines = [ln for ln in lines if ln.strip()]  # a list element / a config line is never blank
        if not lines:
            return
    ctx.ev()
    case = dict(kind="acl", cls=cls, platform=platform, idx=list(idx), lines=lines, via=via)
    head = "ip access-list extended A" if platform == "ios" else "ip access-list A"
    body = "\n".join("  " + ln for ln in lines)
    kinds = ["valid" if ln in VALID else "ignorable" if ln in IGNORABLE else "invalid" if ln in INVALID
             else "overlimit" if ln in OVERLIMIT else "blank" for ln in lines]
    with capture_logs(logging.DEBUG) as records:
        try:
            if via == "items":
                # the lines given as a list of strings
                obj = Acl(name="A", platform=platform, items=list(lines)) if cls == "Acl" else \
                    AceGroup(items=list(lines), platform=platform)
            elif via.startswith("acls:"):
                # the ACL as a section of a configuration, body indented by blanks or a TAB
                ind = via[5:]
                got = cisco_acl.acls("hostname X\n" + head + "\n" + "\n".join(ind + ln for ln in lines)
                                     + "\ninterface Ethernet1\n" + ind + "description x\n",
                                     platform=platform)
                if len(got) != 1:
                    ctx.viol("acls:acl_lost", case, [a.name for a in got], ["A"])
                    return
                obj = got[0]
            else:
                obj = Acl(head + "\n" + body, platform=platform) if cls == "Acl" else \
                    AceGroup(body, platform=platform)
            failed = None
        except (ValueError, TypeError) as ex:
            failed = ex
        except Exception as ex:  # noqa
            ctx.viol(f"{cls}:undocumented_exception", case, repr(ex), "object or ValueError/TypeError")
            return
    if failed is not None:
        ctx.out("construction_failed")
        if via != "text":
            ctx.out("via_failed")
        if all(k in ("valid", "ignorable", "blank") for k in kinds) and \
                not (via == "items" and "ignorable" in kinds):
            ctx.viol(f"{cls}:valid_text_rejected", case, repr(failed), "object")
        return
    ctx.out("built")
    if via != "text":
        ctx.out("via_built")
    warn = [m for lvl, m in records if lvl >= logging.WARNING]
    rd = Reader(platform)
    want_items = [ln for ln, k in zip(lines, kinds) if k == "valid"]
    got_items = [o.line for o in obj.items]
    # every line accounted for
    for ln, k in zip(lines, kinds):
        if k in ("invalid", "overlimit"):
            if not any(_norm(ln) in _norm(m) for m in warn):
                ctx.viol(f"{cls}:line_dropped_without_warning", dict(case, line=ln),
                         dict(items=got_items, warnings=warn), "a warning naming the line, or an error")
                return
            ctx.out("invalid_reported")
        elif k == "ignorable":
            ctx.out("ignorable_skipped")
    # valid lines: item at the corresponding position, same meaning, same order
    if len(got_items) != len(want_items):
        ctx.viol(f"{cls}:item_count", case, got_items, want_items)
        return
    for got, want in zip(got_items, want_items):
        try:
            g, w = rd.read_line(got), rd.read_line(want)
        except Reject as ex:
            ctx.viol(f"{cls}:item_not_readable", dict(case, item=got), str(ex), want)
            return
        same = (isinstance(g, Remark) and isinstance(w, Remark) and g == w) or \
               (not isinstance(g, Remark) and not isinstance(w, Remark) and same_packets(g, w)
                and g.seq == w.seq)
        if not same:
            ctx.viol(f"{cls}:item_order_or_meaning", case, got_items, want_items)
            return
    if "valid" in kinds and any(k in ("invalid", "ignorable") for k in kinds):
        ctx.out("mixed_ok")
        ctx.nt((cls, platform, idx))


def check_ag(platform, via, lines, ctx):
    from cisco_acl import AddrGroup

    al = AG[platform]
    ctx.ev()
    case = dict(kind="ag", platform=platform, via=via, lines=lines)
    head = "object-group network G" if platform == "ios" else "object-group ip address G"
    kinds = ["valid" if ln in al["valid"] else "ignorable" if ln in al["ignorable"] else "invalid"
             for ln in lines]
    with capture_logs(logging.DEBUG) as records:
        try:
            if via == "line":
                obj = AddrGroup(head + "\n" + "\n".join(" " + ln for ln in lines), platform=platform)
            elif via.startswith("addrgroups:"):
                import cisco_acl

                ind = via[11:]
                got_ = cisco_acl.addrgroups("hostname X\n" + head + "\n" + "\n".join(ind + ln for ln in lines)
                                            + "\ninterface Ethernet1\n" + ind + "description x\n",
                                            platform=platform)
                if len(got_) != 1:
                    if "valid" in kinds:
                        ctx.viol("addrgroups:group_lost", case, [g.name for g in got_], ["G"])
                    return
                obj = got_[0]
            else:
                obj = AddrGroup(name="G", items=list(lines), platform=platform)
            failed = None
        except (ValueError, TypeError) as ex:
            failed = ex
        except Exception as ex:  # noqa
            ctx.viol("AddrGroup:undocumented_exception", case, repr(ex), "object or ValueError")
            return
    if failed is not None:
        ctx.out("construction_failed")
        if lines and all(k in ("valid", "ignorable") for k in kinds) and "valid" in kinds:
            ctx.viol("AddrGroup:valid_text_rejected", case, repr(failed), "object")
        return
    ctx.out("addrgroup_built")
    msgs = [m for _lvl, m in records]
    for ln, k in zip(lines, kinds):
        if k == "invalid":
            if not any(_norm(ln) in _norm(m) for m in msgs):
                ctx.viol("AddrGroup:member_dropped_without_record", dict(case, line=ln),
                         dict(items=[o.line for o in obj.items], records=msgs),
                         "a log record naming the line, or an error")
                return
            ctx.out("addrgroup_invalid_reported")
    want = [ln for ln, k in zip(lines, kinds) if k == "valid"]
    got = [o.line for o in obj.items]
    if len(got) != len(want):
        ctx.viol("AddrGroup:item_count", case, got, want)
        return
    rd = Reader(platform)
    for g, w in zip(got, want):
        try:
            mg = rd.read_addrgroup(f"{head}\n {g}")["members"][0]
            mw = rd.read_addrgroup(f"{head}\n {w}")["members"][0]
        except Reject as ex:
            ctx.viol("AddrGroup:item_not_readable", dict(case, item=g), str(ex), w)
            return
        if mg != mw:
            ctx.viol("AddrGroup:item_order_or_meaning", case, got, want)
            return
    if "valid" in kinds and "invalid" in kinds:
        ctx.nt(("ag", platform, via, tuple(lines)))


def _ag(unit, ctx):
    al = AG[unit["platform"]]
    alphabet = al["valid"] + al["ignorable"] + al["invalid"]
    for n in range(1, _L(ctx.tier) + 1):
        for combo in product(alphabet, repeat=n):
            check_ag(unit["platform"], unit["via"], list(combo), ctx)
    ctx.sample("ag", dict(unit, lines=list(combo)))
