"""C11 - shadow answers are exact on group-free entries; the ACL report follows its spec.

Pairs: the C03 pair space restricted to group-free entries whose port expressions denote a
non-empty set; oracle is the equivalence
   answer(S)  <=>  same action and bottom ⊆ top and not (nc_wildcard ∈ S and a non-contiguous
                   wildcard is one of the four addresses)
for all five skip arguments.  ACL level: every list of <= L pairwise distinct group-free entries
(and, separately, lists with duplicates at the level of line sets): shading() / shadow_of() equal
the spec computed from the exact relation.
"""
from __future__ import annotations

from itertools import permutations, product

from vf.checks import c03
from vf.gen import alpha as G
from vf.gen import pairs as P
from vf.refsem.packets import rule_subset

ID = "C11"
LEVEL = "exploration"
RULE = ("pairs: as C03 but group-free and non-empty port sets, oracle is an equivalence; non-trivial "
        "pair = distinct (platform, top, bottom) answered 'shadowed'; ACLs: every ordered list of "
        "<= L distinct entries of a 10-entry alphabet, non-trivial = distinct ACL with at least one "
        "shadowed entry")
ASSUMPTIONS = c03.ASSUMPTIONS + [
    "exactness of member-wise prefix containment for cube-vs-cube is argued in DESIGN 4/C11",
]
REQUIRED = ["answered_true", "answered_false", "nc_involved_true", "acl_with_shadow",
            "acl_without_shadow", "acl_attribution_not_adjacent", "standard_pair", "switched_pair", "mutated_pair", "acl_standard",
            "acl_switched", "acl_mixed_items", "acl_foreign_limit"]
LONG_SUB = [1, 2, 4, 5, 3, 9]  # two independent (cover, covered) pairs + two more: longer lists
SKIP_ACL = [None, ["nc_wildcard"], ["addrgroup", "nc_wildcard"]]


def _d(tier):
    return 2 if tier == "quick" else 3


def _L(tier):
    return 3 if tier == "quick" else 4


def describe(tier, seed):
    return dict(pair_deviation_bound=_d(tier), acl_max_len=_L(tier),
                acl_alphabet=[e.text("ios") for e in acl_entries(seed)], acl_skip=SKIP_ACL)


def _nonempty(acex):
    return acex.sport.mask and acex.dport.mask


def units(tier, seed):
    out = []
    for plat in ("ios", "nxos"):
        for bi in range(2):
            for posset in P.position_sets(_d(tier)):
                out.append(dict(kind="pairs", platform=plat, base=bi, pos=list(posset)))
    out.sort(key=lambda u: len(u["pos"]))
    n = len(acl_entries(seed))
    for plat in ("ios", "nxos"):
        for first in range(n):
            out.append(dict(kind="acls", platform=plat, first=first))
        out.append(dict(kind="acls_dup", platform=plat))
        for first in LONG_SUB:
            out.append(dict(kind="acls_long", platform=plat, first=first))
    out += c03.extra_units()
    out += [dict(kind="acls_standard", first=i) for i in range(len(STD_LINES))]
    for plat in ("ios", "nxos"):
        out += [dict(kind="acls_switched", platform=plat, first=i) for i in range(len(acl_entries(seed)))]
    return out


STD_LINES = ["permit any", "permit {net24}", "permit {net30} log", "deny {net30}", "permit {host1}",
             "deny {host1} log", "permit {nc}", "deny {net31}"]


def _acls_standard(unit, ctx):
    """Standard ACLs: every ordered list of <= 3 (thorough 4) distinct source-only entries."""
    al = {a.label: a.spellings("ios")[0][0] for a in G.addr_alphabet(ctx.seed)}
    texts = [t.format(net24=al["net24"], net30=al["net30"], host1=al["host1"], net31=al["net31"],
                      nc=al["nc_low_run_plus_bit"]) for t in STD_LINES]
    rest = [i for i in range(len(texts)) if i != unit["first"]]
    for n in range(0, _L(ctx.tier)):
        for combo in permutations(rest, n):
            idx = (unit["first"],) + combo
            for skip in SKIP_ACL:
                _check_acl("ios", [texts[i] for i in idx], skip, ctx, acl_type="standard")
                ctx.out("acl_standard")
    ctx.sample("acl_standard", dict(lines=[texts[i] for i in idx]))


def _acls_switched(unit, ctx):
    """The numeric switches change text only: lists of <= 3 entries with protocol_nr / port_nr on."""
    plat = unit["platform"]
    entries = acl_entries(ctx.seed)
    texts = [e.text(plat) for e in entries]
    rules = [e.rule() for e in entries]
    rest = [i for i in range(len(entries)) if i != unit["first"]]
    for n in range(0, 3):
        for combo in permutations(rest, n):
            idx = (unit["first"],) + combo
            for cfg in c03.SWITCHES:
                _check_acl(plat, [texts[i] for i in idx], None, ctx, [rules[i] for i in idx], cfg=cfg)
                ctx.out("acl_switched")
    ctx.sample("acl_switched", dict(platform=plat, lines=[texts[i] for i in idx]))


def run_unit(unit, ctx):
    if c03.run_extra(unit, ctx, False, exact=True, accept=lambda t, b: _nonempty(t) and _nonempty(b)):
        return
    if unit["kind"] == "pairs":
        plat = unit["platform"]
        alph = P.alphabets(ctx.seed, plat, groups=False, small=len(unit["pos"]) >= 3)
        base = P.base_pairs(ctx.seed)[unit["base"]]
        n = 0
        for top, bot in P.pairs_for(base, tuple(unit["pos"]), alph):
            if not (top.valid(plat) and bot.valid(plat) and _nonempty(top) and _nonempty(bot)):
                continue
            n += 1
            c03.check_pair(P.real_ace(top, plat), P.real_ace(bot, plat), P.rule_of(top),
                           P.rule_of(bot), lambda: P.describe_pair(top, bot, plat), ctx, exact=True)
        if n:
            ctx.sample("pair", P.describe_pair(top, bot, plat))
    elif unit["kind"] == "acls":
        _acls(unit, ctx)
    elif unit["kind"] == "acls_long":
        _acls_long(unit, ctx)
    elif unit["kind"] == "acls_standard":
        _acls_standard(unit, ctx)
    elif unit["kind"] == "acls_switched":
        _acls_switched(unit, ctx)
    else:
        _acls_dup(unit, ctx)


def replay(case, ctx):
    if case["kind"] == "pair":
        case = dict(case, exact=True)
        c03.replay(case, ctx)
    else:
        _check_acl(case["platform"], case["lines"], case.get("skip"), ctx,
                   acl_type=case.get("acl_type") or "extended", cfg=case.get("cfg"))


# ---------------------------------------------------------------------------------------- ACLs


def acl_entries(seed):
    al = {a.label: a for a in G.addr_alphabet(seed)}
    p, q, _ = G.SEED_PORTS[seed % len(G.SEED_PORTS)]
    X = G.AceX
    none = G.PortX()
    return [
        X("permit", 0, al["any"], none, al["any"], none),
        X("permit", 6, al["net24"], none, al["any"], none),
        X("permit", 6, al["net30"], none, al["any"], G.PortX("eq", (p,))),
        X("permit", 6, al["host1"], none, al["any"], G.PortX("eq", (p,)), ("ack",)),
        X("deny", 6, al["net24"], none, al["any"], G.PortX("range", (p, q))),
        X("deny", 6, al["host1"], none, al["any"], G.PortX("eq", (p,))),
        X("permit", 17, al["nc_low_run_plus_bit"], none, al["any"], none),
        X("permit", 17, al["net30"], none, al["any"], none, (), ("log",)),
        X("deny", 0, al["host2"], none, al["ext24"], none),
        X("deny", 0, al["net31"], none, al["any"], none),
    ]


def c03_flat(acl):
    out = []
    for o in acl.items:
        out.extend(c03_flat(o) if type(o).__name__ == "AceGroup" else [o])
    return out


def _spec(rules, lines, skip):
    """Expected report from the exact relation: {top line: [bottom lines]}."""
    nc_skip = bool(skip and "nc_wildcard" in skip)
    report, done = {}, set()
    for j in range(len(rules)):
        for i in range(j):
            if rules[i].action != rules[j].action or not rule_subset(rules[j], rules[i]):
                continue
            if nc_skip and (c03._nc(rules[i]) or c03._nc(rules[j])):
                continue
            if lines[j] not in done:
                report.setdefault(lines[i], []).append(lines[j])
                done.add(lines[j])
            break
    return report


def _check_acl(platform, texts, skip, ctx, rules=None, distinct=True, acl_type="extended", cfg=None):
    from cisco_acl import Acl

    from vf.refsem.reader import Reader

    ctx.ev()
    case = dict(kind="acl", platform=platform, lines=list(texts), skip=skip, acl_type=acl_type, cfg=cfg)
    head = f"ip access-list {acl_type} A" if platform == "ios" else "ip access-list A"
    build = (cfg or {}).get("build")
    if build == "mixed_items":
        # the ACL built from a MIXTURE: strings, an explicit AceGroup object (no group_by), an
        # exported dictionary, an Ace object - the report looks inside the block all the same
        from cisco_acl import Ace, AceGroup

        items = []
        k = 0
        while k < len(texts):
            form = k % 4
            if form == 1 and k + 1 < len(texts):
                items.append(AceGroup(items=[texts[k], texts[k + 1]], platform=platform))
                k += 2
                continue
            items.append(texts[k] if form in (0, 1) else Ace(texts[k], platform=platform).data()
                         if form == 2 else Ace(texts[k], platform=platform))
            k += 1
        acl = Acl(name="A", platform=platform, items=items)
        ctx.out("acl_mixed_items")
    elif build == "foreign_limit":
        # entries inserted as objects that were created under a higher max_ncwb than the ACL's
        from cisco_acl import Ace

        acl = Acl(name="A", platform=platform, max_ncwb=0)
        for t in texts:
            acl.append(Ace(t, platform=platform, max_ncwb=16))
        ctx.out("acl_foreign_limit")
    else:
        acl = Acl(head + "\n" + "\n".join(" " + t for t in texts), platform=platform, **(cfg or {}))
    lines = [o.line for o in c03_flat(acl)]
    if len(lines) != len(texts) or acl.type != acl_type:
        ctx.viol("harness:acl_not_built_as_described", case, lines, texts)
        return
    if rules is None:
        rules = [Reader(platform).read_line(ln, acl_type) for ln in texts]
    text_before, ids_before = acl.line, [o.uuid for o in acl.items]
    if build:
        cfg = None
    try:
        got = acl.shading(skip)
        got_list = acl.shadow_of(skip)
        again = acl.shading(skip)
    except Exception as ex:  # noqa
        ctx.viol("Acl.shading:exception", case, repr(ex), "report")
        return
    if acl.line != text_before or [o.uuid for o in acl.items] != ids_before or again != got:
        ctx.viol("Acl.shading:query_modifies_the_acl_or_is_not_repeatable", case,
                 dict(text=acl.line, second=again), dict(text=text_before, first=got))
        return
    want = _spec(rules, lines, skip)
    if distinct:
        if {k: sorted(v) for k, v in got.items()} != {k: sorted(v) for k, v in want.items()}:
            ctx.viol("Acl.shading:report_differs_from_spec", case, got, want)
        if sorted(got_list) != sorted(s for v in want.values() for s in v):
            ctx.viol("Acl.shadow_of:list_differs_from_spec", case, got_list,
                     [s for v in want.values() for s in v])
    else:
        flat = [s for v in got.values() for s in v]
        if len(flat) != len(set(flat)):
            ctx.viol("Acl.shading:entry_listed_twice", case, got, "each line once")
        if set(flat) != {s for v in want.values() for s in v}:
            ctx.viol("Acl.shading:shadow_set_differs(duplicates)", case, got, want)
        if sorted(got_list) != sorted(flat):
            ctx.viol("Acl.shadow_of:differs_from_shading", case, got_list, flat)
        for top, bots in got.items():
            for b in bots:
                ok = any(lines[i] == top and lines[j] == b and rules[i].action == rules[j].action
                         and rule_subset(rules[j], rules[i])
                         for j in range(len(lines)) for i in range(j))
                if not ok:
                    ctx.viol("Acl.shading:reported_pair_is_no_shadow(duplicates)", case,
                             (top, b), "a true earlier cover")
    if want:
        ctx.nt((platform, tuple(texts), str(skip)))
        ctx.out("acl_with_shadow")
        for top, bots in want.items():
            for b in bots:
                if lines.index(b) - lines.index(top) > 1:
                    ctx.out("acl_attribution_not_adjacent")
    else:
        ctx.out("acl_without_shadow")


def _acls(unit, ctx):
    plat = unit["platform"]
    entries = acl_entries(ctx.seed)
    texts = [e.text(plat) for e in entries]
    rules = [e.rule() for e in entries]
    first = unit["first"]
    rest = [i for i in range(len(entries)) if i != first]
    for n in range(0, _L(ctx.tier)):
        for combo in permutations(rest, n):
            idx = (first,) + combo
            for skip in SKIP_ACL:
                _check_acl(plat, [texts[i] for i in idx], skip, ctx, [rules[i] for i in idx])
            if 1 <= n <= 2:
                _check_acl(plat, [texts[i] for i in idx], None, ctx, [rules[i] for i in idx],
                           cfg=dict(build="foreign_limit"))
                _check_acl(plat, [texts[i] for i in idx], None, ctx, [rules[i] for i in idx],
                           cfg=dict(build="mixed_items"))
    ctx.sample("acl", dict(platform=plat, lines=[texts[i] for i in idx]))


def _acls_long(unit, ctx):
    """Every ordered selection of 4..5 (thorough: 6) of the 6 entries in LONG_SUB."""
    plat = unit["platform"]
    entries = acl_entries(ctx.seed)
    texts = [e.text(plat) for e in entries]
    rules = [e.rule() for e in entries]
    rest = [i for i in LONG_SUB if i != unit["first"]]
    for n in ((3, 4) if ctx.tier == "quick" else (3, 4, 5)):
        for combo in permutations(rest, n):
            idx = (unit["first"],) + combo
            _check_acl(plat, [texts[i] for i in idx], None, ctx, [rules[i] for i in idx])
            if n == 3:
                _check_acl(plat, [texts[i] for i in idx], None, ctx, [rules[i] for i in idx],
                           cfg=dict(build="mixed_items"))
    ctx.sample("acl_long", dict(platform=plat, lines=[texts[i] for i in idx]))


def _acls_dup(unit, ctx):
    plat = unit["platform"]
    entries = acl_entries(ctx.seed)[:6]
    texts = [e.text(plat) for e in entries]
    rules = [e.rule() for e in entries]
    for n in (2, 3):
        for idx in product(range(len(entries)), repeat=n):
            if len(set(idx)) == n:
                continue
            _check_acl(plat, [texts[i] for i in idx], None, ctx, [rules[i] for i in idx],
                       distinct=False)
    ctx.sample("acl_dup", dict(platform=plat, lines=[texts[0], texts[2], texts[0]]))
