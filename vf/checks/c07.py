"""C07 - config-level extraction returns exactly the ACLs, bindings and group members.

Configurations are assembled from a section alphabet (ACL sections, address-group sections,
interface sections with access-group bindings, noise sections); every ordered arrangement of <= K
distinct sections x indentation x platform x name filter is given to acls() / aces() / addrgroups()
and compared with a model computed from the arrangement.
"""
from __future__ import annotations

import logging
from itertools import permutations

from vf.lib import capture_logs
from vf.refsem import sets as S
from vf.refsem.packets import Remark
from vf.refsem.reader import Reader, Reject

ID = "C07"
LEVEL = "exploration"
RULE = ("every ordered arrangement of <= K distinct sections of the alphabet x indentation x platform "
        "(name filters on the shorter arrangements); non-trivial = distinct (platform, indentation, "
        "filter, arrangement) that contains an ACL section together with a group, interface or noise "
        "section")
ASSUMPTIONS = [
    "sections that cannot exist in a running configuration (two sections with the same header, an ACL "
    "section without a body line) are outside the domain",
    "noise sections contain no line starting with permit/deny/remark",
]
REQUIRED = ["acls_ok", "binding_in_and_out_on_one_interface", "members_attached", "undefined_group",
            "filtered", "aces_ok", "addrgroups_ok", "noise_between", "options_ok", "options_grouped", "aces_grouped_ok"]


def _K(tier):
    return 4 if tier == "quick" else 5


# keyword options of the config-level functions that must not change what is extracted
OPTIONS = [dict(port_nr=True), dict(protocol_nr=True), dict(port_nr=True, protocol_nr=True),
           dict(version="15.2(4)M"), dict(version="9.3(8)"), dict(max_ncwb=30), dict(group_by="first"),
           dict(group_by="see"), dict(group_by="zzz")]


# ------------------------------------------------------------------------------ section alphabet

ACL_BODY = dict(
    A=dict(ios=["remark first", "10 permit tcp object-group G1 any eq 80", "permit ip any object-group G1",
                "permit udp object-group G1 object-group G1", "deny ip any any log"],
           nxos=["10 remark first", "20 permit tcp addrgroup G1 any eq 80", "30 permit ip any addrgroup G1",
                 "35 permit udp addrgroup G1 addrgroup G1", "40 deny ip any any log"]),
    B=dict(ios=["permit udp object-group GX any eq 53", "remark second", "permit icmp any any",
                "remark see ip access-group A in on Ethernet1/1", "remark !!! do not edit !!!",
                "remark backup path! keep"],
           nxos=["permit udp addrgroup GX any eq 53", "remark second", "permit icmp any any",
                 "remark see ip access-group A in on Ethernet1/1", "remark !!! do not edit !!!",
                 "remark backup path! keep"]),
    S=dict(ios=["permit host 10.0.0.1", "deny any log"], nxos=None),
)
GROUPS = dict(
    G1=dict(ios=["host 10.1.1.1", "10.2.0.0 255.255.0.0"],
            nxos=["10 host 10.1.1.1", "20 10.2.0.0/16", "30 10.3.0.0 0.0.255.0"]),
    G2=dict(ios=["10.9.9.0 255.255.255.0"], nxos=["10.9.9.0/24"]),
    # the same NAME as G1 with other members (never in one configuration with G1)
    # (NX-OS members without sequence numbers, one of them a non-contiguous wildcard)
    G1b=dict(ios=["host 10.7.7.7"], nxos=["10.7.7.0/24", "host 10.7.8.1", "10.4.0.5 0.0.255.0"]),
)
GROUP_CUBES = dict(
    G1=dict(ios=[(S.ip2int("10.1.1.1"), 0), (S.ip2int("10.2.0.0"), 0xFFFF)],
            nxos=[(S.ip2int("10.1.1.1"), 0), (S.ip2int("10.2.0.0"), 0xFFFF),
                  (S.ip2int("10.3.0.0"), 0xFF00)]),
    G2=dict(ios=[(S.ip2int("10.9.9.0"), 255)], nxos=[(S.ip2int("10.9.9.0"), 255)]),
    G1b=dict(ios=[(S.ip2int("10.7.7.7"), 0)],
             nxos=[(S.ip2int("10.7.7.0"), 255), (S.ip2int("10.7.8.1"), 0), (S.ip2int("10.4.0.5"), 0xFF00)]),
)
INTERFACES = dict(
    I1=["ip address 10.0.1.1 255.255.255.0", "ip access-group A in"],
    I2=["ip access-group A in", "description uplink", "ip access-group B out"],
    I3=["ip access-group B in", "ip access-group B out"],
    I4=["ip address 10.0.4.1 255.255.255.0", "no shutdown"],
    I5=["ip access-group A in"],
)
BIND = dict(I1=[("A", "in")], I2=[("A", "in"), ("B", "out")], I3=[("B", "in"), ("B", "out")], I4=[],
            I5=[("A", "in")])
# names as they appear in the configuration (punctuation is legal in ACL names)
# ... and a name may begin with the letters of a type keyword
REAL = dict(A="A", B="extended.v2:x", S="standard-1_x")
SECTIONS = ["A", "B", "S", "G1", "G2", "G1b", "I1", "I2", "I3", "I4", "I5", "N_line", "N_nested", "N_bang",
            "N_vty"]


def section_text(name, platform, w):
    ind = " " * w
    if name in ACL_BODY:
        body = ACL_BODY[name][platform]
        if body is None:
            return None
        if platform == "ios":
            head = f"ip access-list {'standard' if name == 'S' else 'extended'} {REAL[name]}"
        else:
            head = f"ip access-list {REAL[name]}"
        return "\n".join([head] + [ind + b for b in body])
    if name in GROUPS:
        gname = "G1" if name == "G1b" else name
        head = f"object-group network {gname}" if platform == "ios" else \
            f"object-group ip address {gname}"
        return "\n".join([head] + [ind + b for b in GROUPS[name][platform]])
    if name in INTERFACES:
        lines = [b.replace("access-group A ", f"access-group {REAL['A']} ")
                  .replace("access-group B ", f"access-group {REAL['B']} ") for b in INTERFACES[name]]
        return "\n".join([f"interface Ethernet1/{name[1]}"] + [ind + b for b in lines])
    if name == "N_line":
        return "hostname R-1"
    if name == "N_nested":
        return "\n".join(["router bgp 65000", ind + "address-family ipv4 unicast",
                          ind * 2 + "neighbor 10.0.0.1 activate", ind + "bgp log-neighbor-changes"])
    if name == "N_bang":
        return "!\n! comment line\n!"
    if name == "N_vty":
        return "\n".join(["line vty 0 4", ind + "transport input ssh", ind + "access-class 23 in"])
    raise KeyError(name)


def describe(tier, seed):
    return dict(max_sections=_K(tier), sections=SECTIONS, indentation=[1, 2, 3],
                name_filters="all subsets of {A, B, S} on arrangements of <= 2 sections",
                options=OPTIONS, options_on="arrangements of <= 3 sections")


def units(tier, seed):
    out = []
    for plat in ("ios", "nxos"):
        out.append(dict(platform=plat, first=None))
        for a in range(len(SECTIONS)):
            out.append(dict(platform=plat, first=a, second=None))
        for a in range(len(SECTIONS)):
            for b in range(len(SECTIONS)):
                if a != b:
                    out.append(dict(platform=plat, first=a, second=b))
    return out


def run_unit(unit, ctx):
    plat = unit["platform"]
    n = len(SECTIONS)
    if unit["first"] is None:
        check(plat, (), 1, None, ctx)
        for a in range(n):
            for w in (1, 2, 3):
                check(plat, (a,), w, None, ctx)
        return
    first, second = unit["first"], unit.get("second")
    rest_idx = [i for i in range(n) if i not in (first, second)]
    for k in range(1, _K(ctx.tier)):
        if (k == 1) != (second is None):
            continue
        for rest in permutations(rest_idx, k if second is None else k - 1):
            arr = (first,) + rest if second is None else (first, second) + rest
            ws = (1, 2, 3) if k == 1 else ((sum(arr) % 3) + 1,)
            for w in ws:
                check(plat, arr, w, None, ctx)
            if k == 1:
                for mask in range(1, 8):
                    names = [nm for b, nm in enumerate(("A", "B", "S")) if mask >> b & 1]
                    check(plat, arr, 2, names, ctx)
            if k <= 2:
                for opts in OPTIONS:
                    check(plat, arr, 2, None, ctx, opts=opts)
    ctx.sample("config", dict(platform=plat, sections=[SECTIONS[i] for i in arr]))


def replay(case, ctx):
    check(case["platform"], tuple(case["arr"]), case["indent"], case["names"], ctx, opts=case.get("opts"))


# ------------------------------------------------------------------------------------------------


def _flat(items):
    for o in items:
        if type(o).__name__ == "AceGroup":
            yield from _flat(o.items)
        else:
            yield o


def check(platform, arr, w, names, ctx, opts=None):
    import cisco_acl

    secs = [SECTIONS[i] for i in arr]
    texts = [section_text(s, platform, w) for s in secs]
    if any(t is None for t in texts) or ("G1" in secs and "G1b" in secs):
        return
    config = "\n".join(texts) + "\n"
    ctx.ev()
    case = dict(kind="config", platform=platform, arr=list(arr), sections=secs, indent=w, names=names,
                config=config, opts=opts)
    # ---------------- model
    acl_names = [s for s in secs if s in ACL_BODY and (names is None or s in names)]
    defined = [s for s in secs if s in GROUPS]
    variant = {("G1" if s == "G1b" else s): s for s in defined}  # group name -> section variant
    inputs = {a: set() for a in ACL_BODY}
    outputs = {a: set() for a in ACL_BODY}
    for s in secs:
        if s in BIND:
            for acl, direction in BIND[s]:
                (inputs if direction == "in" else outputs)[acl].add(f"interface Ethernet1/{s[1]}")
    kw = dict(platform=platform, indent=" " * w)
    if names is not None:
        kw["names"] = [REAL[n] for n in names]
    kw.update(opts or {})
    with capture_logs(logging.WARNING):
        try:
            got = cisco_acl.acls(config, **kw)
        except Exception as ex:  # noqa
            ctx.viol("acls:exception", case, repr(ex), "list of Acl")
            return
    if [a.name for a in got] != [REAL[n] for n in acl_names]:
        ctx.viol("acls:names_or_order", case, [a.name for a in got], [REAL[n] for n in acl_names])
        return
    rd = Reader(platform)
    for acl, nm in zip(got, acl_names):
        bad = {}
        want_type = "standard" if nm == "S" else "extended"
        if acl.type != want_type:
            bad["type"] = (acl.type, want_type)
        if acl.input != sorted(inputs[nm]):
            bad["input"] = (acl.input, sorted(inputs[nm]))
        if acl.output != sorted(outputs[nm]):
            bad["output"] = (acl.output, sorted(outputs[nm]))
        body = ACL_BODY[nm][platform]
        flat_items = list(_flat(acl.items))
        lines = [o.line for o in flat_items]
        try:
            want_items = [rd.read_line(b, want_type) for b in body]
            got_items = [rd.read_line(ln, want_type) for ln in lines]
        except Reject as ex:
            ctx.viol("acls:item_not_readable", dict(case, acl=nm), str(ex), body)
            return
        if len(got_items) != len(want_items) or any(
                (isinstance(g, Remark) != isinstance(wv, Remark)) or
                (isinstance(g, Remark) and g != wv) or
                (not isinstance(g, Remark) and (g.sem() != wv.sem() or g.seq != wv.seq
                                                or g.src_group != wv.src_group
                                                or g.dst_group != wv.dst_group or g.logs != wv.logs))
                for g, wv in zip(got_items, want_items)):
            bad["items"] = (lines, body)
        # members
        for o, wv in zip(flat_items, want_items):
            if isinstance(wv, Remark):
                continue
            for side, grp in (("srcaddr", wv.src_group), ("dstaddr", wv.dst_group)):
                mem = getattr(o, side).items
                if not grp:
                    if mem:
                        bad[f"members_on_plain_address:{side}"] = ([m.line for m in mem], [])
                    continue
                want_c = GROUP_CUBES[variant[grp]][platform] if grp in variant else []
                try:
                    got_c = [rd._addr(m.line.split())[0][0] for m in mem]
                except (Reject, IndexError) as ex:
                    bad[f"member_syntax:{side}"] = ([m.line for m in mem], str(ex))
                    continue
                if got_c != want_c:
                    bad[f"members:{grp}:{side}"] = ([m.line for m in mem],
                                                    [f"{S.int2ip(b)}~{S.int2ip(wd)}" for b, wd in want_c])
                elif want_c:
                    ctx.out("members_attached")
                else:
                    ctx.out("undefined_group")
        if bad:
            kf = None
            ctx.viol("acls:" + "+".join(sorted(k.split(":")[0] for k in bad)), dict(case, acl=nm),
                     {k: v[0] for k, v in bad.items()}, {k: v[1] for k, v in bad.items()}, kf=kf)
            return
    # the returned objects are independent of each other: no member / field object is shared
    seen = {}
    for acl in got:
        for o in _flat(acl.items):
            if not hasattr(o, "srcaddr"):
                continue
            for f in ("protocol", "srcaddr", "srcport", "dstaddr", "dstport", "option"):
                objs = [getattr(o, f)] + (list(getattr(o, f).items) if f.endswith("addr") else [])
                for x in objs:
                    if id(x) in seen:
                        ctx.viol("acls:returned_objects_share_state", case,
                                 f"{f} of {o.line!r} in {acl.name} is also part of {seen[id(x)]}",
                                 "every entry owns its objects")
                        return
                    seen[id(x)] = f"{o.line!r} in {acl.name}"
    ctx.out("acls_ok")
    if opts:
        ctx.out("options_ok")
        if "group_by" in opts and any(type(o).__name__ == "AceGroup" for a in got for o in a.items):
            ctx.out("options_grouped")
    if names is not None:
        ctx.out("filtered")
    if "I2" in secs and ("A" in acl_names or "B" in acl_names):
        ctx.out("binding_in_and_out_on_one_interface")
    if any(s.startswith("N_") for s in secs[1:-1]) and acl_names:
        ctx.out("noise_between")
    if acl_names and len(secs) > len(acl_names):
        ctx.nt((platform, w, str(names), tuple(arr)))
    if names is not None or (opts and "group_by" not in opts):
        return
    # ---------------- aces(): every ACL body line of the configuration in order
    with capture_logs(logging.WARNING):
        try:
            flat = list(_flat(cisco_acl.aces(config, platform=platform, **(opts or {}))))
        except Exception as ex:  # noqa
            ctx.viol("aces:exception", case, repr(ex), "list")
            return
    want_lines = [b for s in secs if s in ACL_BODY for b in ACL_BODY[s][platform]]
    try:
        g_items = [rd.read_line(o.line, "standard" if _is_std(o.line) else "extended") for o in flat]
        w_items = [rd.read_line(b, "standard" if _is_std(b) else "extended") for b in want_lines]
    except Reject as ex:
        ctx.viol("aces:item_not_readable", case, str(ex), want_lines)
        return
    if len(g_items) != len(w_items) or any(
            (isinstance(g, Remark) != isinstance(wv, Remark)) or (isinstance(g, Remark) and g != wv) or
            (not isinstance(g, Remark) and (g.sem() != wv.sem() or g.seq != wv.seq))
            for g, wv in zip(g_items, w_items)):
        ctx.viol("aces:lines_or_order", case, [o.line for o in flat], want_lines)
        return
    ctx.out("aces_ok")
    if opts:
        ctx.out("aces_grouped_ok")
        return
    # ---------------- addrgroups()
    with capture_logs(logging.WARNING):
        try:
            grps = cisco_acl.addrgroups(config, platform=platform, indent=" " * w)
        except Exception as ex:  # noqa
            ctx.viol("addrgroups:exception", case, repr(ex), "list")
            return
    if [g.name for g in grps] != [("G1" if s == "G1b" else s) for s in defined]:
        ctx.viol("addrgroups:names_or_order", case, [g.name for g in grps], defined)
        return
    for g, sec in zip(grps, defined):
        try:
            mem = Reader(platform).read_addrgroup(g.line)["members"]
        except Reject as ex:
            ctx.viol("addrgroups:not_readable", dict(case, group=g.name), str(ex), "valid group")
            return
        if [m[1] for m in mem] != GROUP_CUBES[sec][platform]:
            ctx.viol("addrgroups:members", dict(case, group=g.name), g.line, GROUPS[sec][platform])
            return
    ctx.out("addrgroups_ok")


def _is_std(line):
    toks = line.split()
    if toks and toks[0].isdigit():
        toks = toks[1:]
    return len(toks) >= 2 and toks[0] in ("permit", "deny") and \
        (toks[1] in ("host", "any") and len(toks) <= 4 and "any" not in toks[2:3] or
         toks[1][0].isdigit() and "." in toks[1])
