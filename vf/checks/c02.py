"""C02 - IOS <-> NX-OS conversion changes spelling only, never the ACL's meaning.

(a) every single-entry ACL over the deviation-bounded ACE space (with group members attached),
    both directions, several switch settings;
(b) every ordered list (with repetition) of <= L items over a structural alphabet, flat and
    grouped by prefix, both directions;
(c) single Ace / Address / AddressAg / AddrGroup objects converted on their own.
Oracle: target text accepted by the TARGET platform's independent reader; rule-by-rule the same
packets and actions (a multi-operand eq becomes an adjacent block whose union is the original);
remarks, name, order, sequence numbers, group members preserved; A->B text == A->B->A->B text;
conversions that cannot exist raise a documented error.
"""
from __future__ import annotations

from itertools import combinations, product

from vf.gen import alpha as G
from vf.gen import programs as PR
from vf.refsem import sets as S
from vf.refsem.packets import Remark, Rule, acl_equivalent
from vf.refsem.reader import Reader, Reject

ID = "C02"
LEVEL = "exploration"
RULE = ("(a) deviation-bounded ACE space x direction x configuration, (b) every item list up to the "
        "stated length x {flat, grouped} x direction, (c) every single object of the alphabets; "
        "non-trivial = distinct (direction, configuration, source text) whose target text differs "
        "from the source text in more than the header")
ASSUMPTIONS = [
    "independent readers define 'valid on the target platform' (port-name vocabulary per "
    "platform/version read from the library, C09 checks it)",
    "multi-operand neq is excluded here (owned by C19)",
]
REQUIRED = ["acl_converted_ok", "multi_eq_split", "group_members_kept", "name_fallback_to_number",
            "single_ace_ok", "single_multiport_refused", "addrgroup_ok", "nc_member_to_ios_refused",
            "roundtrip_stable", "siblings_untouched"]
OTHER = dict(ios="nxos", nxos="ios")


def _plan(tier, seed):
    """[(configuration, deviation bound)] for part (a)."""
    vers = G.VERSIONS
    if tier == "thorough":
        out = []
        for i, (plat, ver, pn, prn) in enumerate(product(G.PLATFORMS, vers, (False, True),
                                                         (False, True))):
            cfg = dict(platform=plat, version=ver, port_nr=pn, protocol_nr=prn)
            out.append((cfg, 2 if i % 4 == (seed % 4) else 1))
        return out
    v = vers[seed % 4]
    return [(dict(platform="ios", version=v, port_nr=False, protocol_nr=False), 2),
            (dict(platform="nxos", version=v, port_nr=False, protocol_nr=False), 2),
            (dict(platform="ios", version=vers[(seed + 1) % 4], port_nr=True, protocol_nr=True), 1),
            (dict(platform="nxos", version=vers[(seed + 2) % 4], port_nr=True, protocol_nr=True), 1),
            (dict(platform="ios", version=vers[(seed + 3) % 4], port_nr=False, protocol_nr=True), 1)]


def _L(tier):
    return 2 if tier == "quick" else 3


def describe(tier, seed):
    return dict(part_a=_plan(tier, seed), part_b_max_len=_L(tier),
                part_b_alphabet=[it.text("ios") for it in struct_items(seed)])


def units(tier, seed):
    out = []
    for ci, (_cfg, d) in enumerate(_plan(tier, seed)):
        for bi in range(3):
            out.append(dict(kind="dev", cfg=ci, base=bi, fields=[]))
            for k in range(1, d + 1):
                for fields in combinations(G.FIELDS, k):
                    heavy = k >= 2 and ("sport" in fields or "dport" in fields)
                    for chunk in (range(4) if heavy else (None,)):
                        out.append(dict(kind="dev", cfg=ci, base=bi, fields=list(fields), chunk=chunk))
    n = len(struct_items(seed))
    for src in G.PLATFORMS:
        for grouped in (False, True):
            out.append(dict(kind="lists", src=src, grouped=grouped, first=None))
            if _L(tier) >= 2:
                for a in range(n):
                    out.append(dict(kind="lists", src=src, grouped=grouped, first=a))
    for src in G.PLATFORMS:
        out += [dict(kind="single_ace", src=src), dict(kind="single_addr", src=src),
                dict(kind="single_ag", src=src), dict(kind="addrgroup", src=src)]
    out.append(dict(kind="standard"))
    out += [dict(kind="siblings", src=src) for src in G.PLATFORMS]
    # heaviest units first (load balance): weight = product of the alphabet sizes of the fields
    sizes = {f: len(v) for f, v in G.field_alphabets(seed, "ios", groups=True).items()}

    def weight(u):
        w = 1
        for f in u.get("fields", []):
            w *= sizes.get(f, 3)
        return -w if u["kind"] == "dev" else 0

    out.sort(key=weight)
    return out


def run_unit(unit, ctx):
    k = unit["kind"]
    if k == "dev":
        _dev(unit, ctx)
    elif k == "lists":
        _lists(unit, ctx)
    elif k == "single_ace":
        _single_ace(unit["src"], ctx)
    elif k == "single_addr":
        _single_addr(unit["src"], ctx)
    elif k == "single_ag":
        _single_ag(unit["src"], ctx)
    elif k == "addrgroup":
        _addrgroup(unit["src"], ctx)
    elif k == "standard":
        _standard(ctx)
    elif k == "siblings":
        _siblings(unit["src"], ctx)


def _siblings(src, ctx):
    """Several ACLs extracted from one configuration that reference the same address group:
    converting ONE of them leaves the others (text, members, member platform) exactly as they were."""
    import cisco_acl

    dst = "nxos" if src == "ios" else "ios"
    if src == "ios":
        cfg = ("object-group network G\n host 10.1.1.1\n 10.2.0.0 255.255.0.0\n"
               "ip access-list extended A\n permit tcp object-group G any eq 80 443\n deny ip any object-group G\n"
               "ip access-list extended B\n permit udp any object-group G eq 53\n remark x\n"
               "ip access-list extended C\n permit ip object-group G object-group G\n")
    else:
        cfg = ("object-group ip address G\n 10 host 10.1.1.1\n 20 10.2.0.0/16\n"
               "ip access-list A\n 10 permit tcp addrgroup G any eq 80\n 20 deny ip any addrgroup G\n"
               "ip access-list B\n 10 permit udp any addrgroup G eq 53\n 20 remark x\n"
               "ip access-list C\n 10 permit ip addrgroup G addrgroup G\n")

    def snap(acl):
        out = [acl.line, acl.platform]
        for o in acl.items:
            if hasattr(o, "srcaddr"):
                for side in ("srcaddr", "dstaddr"):
                    out.append([(m.line, m.platform) for m in getattr(o, side).items])
        return out

    for which in range(3):
        for steps in ((dst,), (dst, src), (dst, src, dst)):
            ctx.ev()
            case = dict(kind="siblings", src=src, converted=which, steps=list(steps))
            try:
                acls = cisco_acl.acls(cfg, platform=src)
                before = [snap(a) for a in acls]
                for p in steps:
                    acls[which].platform = p
                after = [snap(a) for a in acls]
            except Exception as ex:  # noqa
                ctx.viol("Acl.platform:siblings:exception", case, repr(ex), "conversion")
                continue
            bad = [acls[i].name for i in range(3) if i != which and after[i] != before[i]]
            if bad:
                i = [a.name for a in acls].index(bad[0])
                ctx.viol("Acl.platform:converting_one_acl_changes_another", dict(case, other=bad),
                         after[i], before[i])
            else:
                ctx.out("siblings_untouched")
    ctx.sample("siblings", dict(src=src))


def replay(case, ctx):
    k = case["kind"]
    if k == "acl":
        items = [_item_from_json(d, ctx.seed) for d in case["items"]]
        check_acl(items, case["cfg"], case["grouped"], ctx)
    elif k == "single_ace":
        _single_ace(case["src"], ctx)
    elif k == "single_addr":
        _single_addr(case["src"], ctx)
    elif k == "single_ag":
        _single_ag(case["src"], ctx)
    elif k == "addrgroup":
        _addrgroup(case["src"], ctx)
    else:
        _standard(ctx)


# ------------------------------------------------------------------------------------------------


def struct_items(seed):
    al = {a.label: a for a in G.addr_alphabet(seed)}
    gr = {a.group: a for a in G.group_alphabet(seed)}
    a, b, c = G.SEED_PORTS[seed % len(G.SEED_PORTS)]
    none = G.PortX()
    X, I = G.AceX, PR.Item  # noqa
    return [
        I("multi_src", X("permit", 6, al["any"], G.PortX("eq", (a, b)), al["any"], none)),
        I("multi_dst", X("deny", 17, al["host1"], none, al["net24"], G.PortX("eq", (c, a, b)))),
        I("multi_both", X("permit", 6, al["net24"], G.PortX("eq", (a, b)), al["any"],
                          G.PortX("eq", (22, 23)), ("ack",), ("log",))),
        I("numbered", X("permit", 1, al["net30"], none, al["any"], none, (), (), 15)),
        I("remark", None, "plain text"),
        I("head", None, "= block one"),
        I("grp_src", X("permit", 0, gr["G3"], none, al["any"], none)),
        I("grp_dst", X("deny", 6, al["any"], none, gr["GH"], G.PortX("eq", (a,)))),
        I("ios_names", X("permit", 6, al["any"], none, al["any"], G.PortX("eq", (135,)))),
        I("ios_proto", X("permit", 4, al["any"], none, al["ext24"], none)),
        I("nc", X("permit", 0, al["nc_low_run_plus_bit"], none, al["nc_odd_even"], none)),
        I("range_log", X("deny", 17, al["host1"], G.PortX("eq", (53,)), al["net24"],
                         G.PortX("range", (1024, 2048)), (), ("log",))),
    ]


def _item_json(it):
    import base64
    import pickle

    return dict(label=it.label, pickle=base64.b64encode(pickle.dumps(it)).decode())


def _item_from_json(d, seed):
    import base64
    import pickle

    return pickle.loads(base64.b64decode(d["pickle"]))


def _members_of(acl):
    """[(side, [member lines])] per ACE in flattened order."""
    from cisco_acl import Ace

    out = []
    for o in _flat(acl):
        if isinstance(o, Ace):
            out.append(tuple((side, [m.line for m in getattr(o, side).items])
                             for side in ("srcaddr", "dstaddr")))
    return out


def _flat(obj):
    from cisco_acl import AceGroup

    out = []
    for o in obj.items:
        if isinstance(o, AceGroup):
            out.extend(_flat(o))
        else:
            out.append(o)
    return out


def _member_cubes(lines, platform):
    rd = Reader(platform)
    out = []
    for ln in lines:
        cubes, _ = rd._addr(ln.split())
        out.extend(cubes)
    return out


def check_acl(items, cfg, grouped, ctx, tag="acl"):
    """Build on cfg['platform'], convert to the other platform, check, convert back and forth."""
    src, dst = cfg["platform"], OTHER[cfg["platform"]]
    ctx.ev()
    case = dict(kind="acl", cfg=cfg, grouped=grouped, items=[_item_json(i) for i in items],
                lines=[i.text(src, ) for i in items])
    kw = dict(version=cfg["version"], port_nr=cfg["port_nr"], protocol_nr=cfg["protocol_nr"])
    try:
        acl = PR.build_acl(items, src, group_by="= " if grouped else "", **kw)
    except Exception as ex:  # noqa
        ctx.viol("harness:build", case, repr(ex), "built")
        return
    if grouped and sum(i.remark.startswith("= ") for i in items) > 1:
        return
    blocks_before = [b[0] for b in PR.blocks(acl)]
    try:
        acl.platform = dst
    except Exception as ex:  # noqa
        ctx.viol(f"Acl.platform:{src}->{dst}:exception", case, repr(ex), "converted ACL")
        return
    text1 = acl.line
    vocab = G.port_vocab(dst, cfg["version"])
    try:
        got = Reader(dst, port_names=vocab).read_acl(text1)
    except Reject as ex:
        ctx.viol(f"Acl.platform:{src}->{dst}:invalid_target_syntax", case,
                 dict(text=text1, why=str(ex)), f"valid {dst} syntax")
        return
    if got["name"] != "A" or got["type"] != "extended":
        ctx.viol("Acl.platform:name_or_type_changed", case, (got["name"], got["type"]), "A extended")
    if acl.platform != dst or any(o.platform != dst for o in _flat(acl)):
        ctx.viol("Acl.platform:platform_attribute_not_updated", case,
                 [o.platform for o in _flat(acl)], dst)
    k = 0
    rules = got["items"]
    src_rules, dst_rules = [], []
    multi = False
    for it in items:
        if not it.is_ace:
            if k >= len(rules) or not isinstance(rules[k], Remark) or rules[k].text != it.remark:
                ctx.viol("Acl.platform:remark_moved_or_lost", case, text1, it.remark)
                return
            k += 1
            continue
        want = it.acex.rule(resolve_groups=False)
        n = 1
        if dst == "nxos":
            for px in (it.acex.sport, it.acex.dport):
                if px.op == "eq" and len(px.operands) > 1:
                    n *= len(set(px.operands))
                    multi = True
        block = rules[k:k + n]
        if len(block) != n or any(isinstance(b, Remark) for b in block):
            ctx.viol("Acl.platform:block_not_at_original_position", case, text1,
                     f"{n} entries for {it.text(src)!r}")
            return
        for b in block:
            if (b.action, b.proto, b.src, b.dst, b.flags, b.seq, b.logs, b.src_group, b.dst_group) != \
                    (want.action, want.proto, want.src, want.dst, want.flags, want.seq, want.logs,
                     want.src_group, want.dst_group):
                ctx.viol("Acl.platform:field_changed", case, dict(text=text1, entry=repr(b)),
                         repr(want))
                return
            if dst == "nxos" and any(ex and ex[0] == "eq" and len(ex[1]) != 1 for ex in b._exprs):
                ctx.viol("Acl.platform:multi_operand_left", case, text1, "one operand per side")
                return
        whole = [Rule("permit", want.proto, (S.ANY_CUBE,), want.sport, (S.ANY_CUBE,), want.dport)]
        parts = [Rule("permit", b.proto, (S.ANY_CUBE,), b.sport, (S.ANY_CUBE,), b.dport) for b in block]
        if acl_equivalent(parts, whole) is not None:
            ctx.viol("Acl.platform:ports_changed", case, dict(text=text1), repr(want))
            return
        src_rules.append(want)
        dst_rules.extend(block)
        k += n
    if k != len(rules):
        ctx.viol("Acl.platform:extra_lines", case, text1, f"{k} lines")
        return
    # members of referenced groups: same union, attached to the same entries
    mem = _members_of(acl)
    j = 0
    for it in items:
        if not it.is_ace:
            continue
        n = 1
        if dst == "nxos":
            for px in (it.acex.sport, it.acex.dport):
                if px.op == "eq" and len(px.operands) > 1:
                    n *= len(set(px.operands))
        for _ in range(n):
            for (side, lines), adr in zip(mem[j], (it.acex.src, it.acex.dst)):
                want_c = [c for m in adr.members for c in m.cubes] if adr.group else []
                try:
                    got_c = _member_cubes(lines, dst)
                except (Reject, ValueError) as ex:
                    ctx.viol("Acl.platform:member_invalid_target_syntax", case,
                             dict(lines=lines, why=str(ex)), f"valid {dst} addresses")
                    return
                if got_c != want_c:
                    ctx.viol("Acl.platform:group_members_changed", case, lines,
                             [m.spellings(dst)[0][0] for m in adr.members])
                    return
                if adr.group and adr.members:
                    ctx.out("group_members_kept")
            j += 1
    if grouped and [b[0] for b in PR.blocks(acl)] != blocks_before:
        ctx.viol("Acl.platform:blocks_changed", case, [b[0] for b in PR.blocks(acl)], blocks_before)
    # there and back and there again
    try:
        acl.platform = src
        text2 = acl.line
        Reader(src, port_names=G.port_vocab(src, cfg["version"])).read_acl(text2)
        acl.platform = dst
        text3 = acl.line
    except Reject as ex:
        ctx.viol(f"Acl.platform:{dst}->{src}:invalid_target_syntax", case, str(ex), f"valid {src}")
        return
    except Exception as ex:  # noqa
        ctx.viol("Acl.platform:roundtrip_exception", case, repr(ex), "converted")
        return
    if text3 != text1:
        ctx.viol("Acl.platform:there_back_there_differs", case, text3, text1)
    else:
        ctx.out("roundtrip_stable")
    ctx.out("acl_converted_ok")
    if multi:
        ctx.out("multi_eq_split")
    ctx.nt((src, str(cfg), grouped, tuple(case["lines"])))
    if src == "ios" and any(it.is_ace and (135 in it.acex.dport.operands or it.acex.proto in (4, 41))
                            for it in items) and not cfg["port_nr"]:
        ctx.out("name_fallback_to_number")


def _dev(unit, ctx):
    cfg, _d = _plan(ctx.tier, ctx.seed)[unit["cfg"]]
    plat = cfg["platform"]
    base = G.bases(ctx.seed)[unit["base"]]
    fields = tuple(unit["fields"])
    # quick tier: the NX-OS -> IOS direction explores two deviating fields over the reduced
    # alphabets (the split of multi-operand eq only exists in the IOS -> NX-OS direction)
    small = ctx.tier == "quick" and plat == "nxos" and len(fields) >= 2
    alph = G.field_alphabets(ctx.seed, plat, groups=True, small=small)
    alph["seq"] = [0, 10, 4294967295]
    pools = [[v for v in alph[f] if v != getattr(base, f)] for f in fields]
    n = 0
    for ci_, combo in enumerate(product(*pools)):
        if unit.get("chunk") is not None and ci_ % 4 != unit["chunk"]:
            continue
        kw = {f: getattr(base, f) for f in G.FIELDS}
        kw.update(dict(zip(fields, combo)))
        acex = G.AceX(**kw)
        if not acex.valid(plat):
            continue
        if any(px.op == "neq" and len(px.operands) > 1 for px in (acex.sport, acex.dport)):
            continue
        n += 1
        check_acl_acex(acex, cfg, ctx)
    if n:
        ctx.sample("dev", dict(cfg=cfg, fields=fields, last=acex.text(plat, cfg["version"])))


def check_acl_acex(acex, cfg, ctx):
    it = PR.Item("x", acex)
    _REG[it.label] = it
    check_acl([it], cfg, False, ctx)


_REG: dict = {}


def _lists(unit, ctx):
    src = unit["src"]
    its = struct_items(ctx.seed)
    usable = [i for i, it in enumerate(its) if not it.is_ace or it.acex.valid(src)]
    # grouped lists always carry the IOS 15 table (the one that differs from the default table)
    ver = "15.2(4)M" if unit["grouped"] else G.VERSIONS[ctx.seed % 4]
    cfg = dict(platform=src, version=ver, port_nr=False, protocol_nr=False)
    if unit["first"] is None:
        for i in usable:
            check_acl([its[i]], cfg, unit["grouped"], ctx)
        return
    if unit["first"] not in usable:
        return
    for ln in range(2, _L(ctx.tier) + 1):
        for rest in product(usable, repeat=ln - 1):
            idx = (unit["first"],) + rest
            check_acl([its[i] for i in idx], cfg, unit["grouped"], ctx)
    ctx.sample("list", dict(src=src, grouped=unit["grouped"], lines=[its[i].text(src) for i in idx]))


# ----------------------------------------------------------------------------- single objects


def _single_ace(src, ctx):
    from cisco_acl import Ace

    dst = OTHER[src]
    alph = G.field_alphabets(ctx.seed, src, groups=True)
    for base in G.bases(ctx.seed):
        for f in G.FIELDS:
            for v in alph[f]:
                kw = {x: getattr(base, x) for x in G.FIELDS}
                kw[f] = v
                acex = G.AceX(**kw)
                if not acex.valid(src):
                    continue
                if any(px.op == "neq" and len(px.operands) > 1 for px in (acex.sport, acex.dport)):
                    continue
                ctx.ev()
                text = acex.text(src)
                case = dict(kind="single_ace", src=src, text=text)
                ace = Ace(text, platform=src)
                multi = dst == "nxos" and any(px.op == "eq" and len(px.operands) > 1
                                              for px in (acex.sport, acex.dport))
                try:
                    ace.platform = dst
                except (ValueError, TypeError):
                    if multi:
                        ctx.out("single_multiport_refused")
                    else:
                        ctx.viol("Ace.platform:refused", case, "error", "converted")
                    continue
                except Exception as ex:  # noqa
                    ctx.viol("Ace.platform:exception", case, repr(ex), "converted")
                    continue
                if multi:
                    ctx.viol("Ace.platform:multiport_accepted_on_nxos", case, ace.line, "ValueError")
                    continue
                try:
                    got = Reader(dst, port_names=G.port_vocab(dst, "")).read_line(ace.line)
                except Reject as ex:
                    ctx.viol("Ace.platform:invalid_target_syntax", case, dict(line=ace.line, why=str(ex)),
                             f"valid {dst}")
                    continue
                want = acex.rule(resolve_groups=False)
                if got.sem() != want.sem() or (got.seq, got.logs, got.src_group, got.dst_group) != \
                        (want.seq, want.logs, want.src_group, want.dst_group):
                    ctx.viol("Ace.platform:meaning_changed", case, dict(line=ace.line, read=repr(got)),
                             repr(want))
                    continue
                t1 = ace.line
                ace.platform = src
                ace.platform = dst
                if ace.line != t1:
                    ctx.viol("Ace.platform:there_back_there_differs", case, ace.line, t1)
                ctx.out("single_ace_ok")
                ctx.nt(("ace", src, text))
    ctx.sample("single_ace", dict(src=src))


def _single_addr(src, ctx):
    from cisco_acl import Address

    dst = OTHER[src]
    for adr in G.addr_alphabet(ctx.seed, groups=True):
        for text, _native in adr.spellings(src):
            ctx.ev()
            case = dict(kind="single_addr", src=src, text=text, members=[m.label for m in adr.members])
            kw = {}
            if adr.group:
                kw["items"] = [m.spellings(src)[0][0] for m in adr.members]
            obj = Address(text, platform=src, **kw)
            try:
                obj.platform = dst
                cubes, grp = Reader(dst)._addr(obj.line.split())
                mem = _member_cubes([m.line for m in obj.items], dst)
            except (Reject, ValueError) as ex:
                ctx.viol("Address.platform:invalid_or_refused", case, repr(ex), f"valid {dst} address")
                continue
            except Exception as ex:  # noqa
                ctx.viol("Address.platform:exception", case, repr(ex), "converted")
                continue
            want_c = () if adr.group else adr.cubes
            if tuple(cubes) != tuple(want_c) or grp != adr.group or \
                    mem != [c for m in adr.members for c in m.cubes]:
                ctx.viol("Address.platform:meaning_changed", case,
                         dict(line=obj.line, members=[m.line for m in obj.items]), repr(adr))
                continue
            t1 = (obj.line, [m.line for m in obj.items])
            obj.platform = src
            obj.platform = dst
            if (obj.line, [m.line for m in obj.items]) != t1:
                ctx.viol("Address.platform:there_back_there_differs", case, obj.line, t1)
            ctx.nt(("addr", src, text))
    ctx.sample("single_addr", dict(src=src))


def _ag_spellings(adr, platform):
    (base, wild), = adr.cubes
    ip = S.int2ip
    contiguous = wild & (wild + 1) == 0
    if wild == 0:
        return [f"host {ip(base)}", f"{ip(base)}/32"]
    if platform == "ios":
        if not contiguous or wild == S.ALL32:
            return []
        return [f"{ip(base)} {ip(~wild & S.ALL32)}", f"{ip(base)}/{32 - bin(wild).count('1')}"]
    if contiguous:
        return [f"{ip(base)}/{32 - bin(wild).count('1')}", f"{ip(base)} {ip(wild)}"]
    return [f"{ip(base)} {ip(wild)}"]


def _read_member(line, platform):
    head = "object-group network G" if platform == "ios" else "object-group ip address G"
    return Reader(platform).read_addrgroup(f"{head}\n {line}")["members"][0]


def _single_ag(src, ctx):
    from cisco_acl import AddressAg

    dst = OTHER[src]
    for adr in G.addr_alphabet(ctx.seed):
        for text in _ag_spellings(adr, src):
            for seq in ("", "10 ") if src == "nxos" else ("",):
                ctx.ev()
                case = dict(kind="single_ag", src=src, text=seq + text)
                obj = AddressAg(seq + text, platform=src)
                try:
                    obj.platform = dst
                except (ValueError, TypeError):
                    if dst == "ios" and (adr.is_nc or adr.cubes[0][1] == S.ALL32):
                        ctx.out("nc_member_to_ios_refused")
                    else:
                        ctx.viol("AddressAg.platform:refused", case, "error", "converted")
                    continue
                except Exception as ex:  # noqa
                    ctx.viol("AddressAg.platform:exception", case, repr(ex), "converted")
                    continue
                if dst == "ios" and adr.is_nc:
                    ctx.viol("AddressAg.platform:nc_member_accepted_on_ios", case, obj.line, "ValueError")
                    continue
                try:
                    mseq, cube, _ = _read_member(obj.line, dst)
                except Reject as ex:
                    ctx.viol("AddressAg.platform:invalid_target_syntax", case,
                             dict(line=obj.line, why=str(ex)), f"valid {dst} member")
                    continue
                if cube != adr.cubes[0]:
                    ctx.viol("AddressAg.platform:meaning_changed", case, obj.line, repr(adr))
                if dst == "nxos" and seq and mseq != 10:
                    ctx.viol("AddressAg.platform:sequence_lost", case, obj.line, "10 ...")
                t1 = obj.line
                obj.platform = src
                obj.platform = dst
                if obj.line != t1:
                    ctx.viol("AddressAg.platform:there_back_there_differs", case, obj.line, t1)
                ctx.nt(("ag", src, seq + text))
    ctx.sample("single_ag", dict(src=src))


def _addrgroup(src, ctx):
    from cisco_acl import AddrGroup

    dst = OTHER[src]
    al = {a.label: a for a in G.addr_alphabet(ctx.seed)}
    pool = [al[k] for k in ("host1", "net30", "net24", "net25hi", "ext24", "net8")]
    if src == "nxos":
        pool.append(al["nc_low_run_plus_bit"])
    head = "object-group network G-1" if src == "ios" else "object-group ip address G-1"
    for n in (1, 2, 3):
        for members in product(range(len(pool)), repeat=n):
            for numbered in ((False, True) if src == "nxos" else (False,)):
                for sp in (0, 1):
                    lines = []
                    for k, mi in enumerate(members):
                        spells = _ag_spellings(pool[mi], src)
                        lines.append((f"{10 * (k + 1)} " if numbered else "") + spells[sp % len(spells)])
                    ctx.ev()
                    case = dict(kind="addrgroup", src=src, lines=lines)
                    grp = AddrGroup(head + "\n" + "\n".join(" " + ln for ln in lines), platform=src)
                    has_nc = any(pool[mi].is_nc for mi in members)
                    try:
                        grp.platform = dst
                    except (ValueError, TypeError):
                        if dst == "ios" and has_nc:
                            ctx.out("nc_member_to_ios_refused")
                        else:
                            ctx.viol("AddrGroup.platform:refused", case, "error", "converted")
                        continue
                    except Exception as ex:  # noqa
                        ctx.viol("AddrGroup.platform:exception", case, repr(ex), "converted")
                        continue
                    if dst == "ios" and has_nc:
                        ctx.viol("AddrGroup.platform:nc_member_accepted_on_ios", case, grp.line, "error")
                        continue
                    try:
                        got = Reader(dst).read_addrgroup(grp.line)
                    except Reject as ex:
                        ctx.viol("AddrGroup.platform:invalid_target_syntax", case,
                                 dict(text=grp.line, why=str(ex)), f"valid {dst} group",
                                 kf=None)
                        continue
                    if got["name"] != "G-1" or [m[1] for m in got["members"]] != \
                            [pool[mi].cubes[0] for mi in members]:
                        ctx.viol("AddrGroup.platform:meaning_changed", case, grp.line, lines)
                        continue
                    if dst == "nxos" and numbered and [m[0] for m in got["members"]] != \
                            [10 * (k + 1) for k in range(n)]:
                        ctx.viol("AddrGroup.platform:sequence_changed", case, grp.line, lines)
                    t1 = grp.line
                    grp.platform = src
                    grp.platform = dst
                    if grp.line != t1:
                        ctx.viol("AddrGroup.platform:there_back_there_differs", case, grp.line, t1)
                    ctx.out("addrgroup_ok")
                    ctx.nt(("addrgroup", src, tuple(lines)))
    ctx.sample("addrgroup", dict(src=src))


def _standard(ctx):
    """A standard ACL has no NX-OS form: a documented error is required."""
    from cisco_acl import Acl

    for body in ("permit host 10.0.0.1", "10 permit 10.0.0.0 0.0.0.255 log\n deny any"):
        ctx.ev()
        acl = Acl(f"ip access-list standard S\n {body}", platform="ios")
        case = dict(kind="standard", body=body)
        try:
            acl.platform = "nxos"
        except (ValueError, TypeError):
            ctx.out("standard_to_nxos_refused")
            continue
        except Exception as ex:  # noqa
            ctx.viol("Acl.platform:standard_exception", case, repr(ex), "ValueError")
            continue
        try:
            Reader("nxos").read_acl(acl.line)
            ctx.out("standard_to_nxos_converted_to_valid_text")
        except Reject as ex:
            ctx.viol("Acl.platform:standard_to_nxos_invalid_text", case,
                     dict(text=acl.line, why=str(ex)), "documented error or valid NX-OS text")
