"""C18 - generated port/protocol ranges cover exactly the requested set.

Ports: every comma list of <= L tokens over {1, 2, 3, 5, a named port, 65535, 1-2, 2-4, 7-7, 21-23,
65534-65535} and the empty token x side x 6 templates x port_count 1..3 x port_range x platform x
port_nr.  Protocols: lists of <= 3 tokens over {0, 1, 6, 17, 255, 1-2, 5-7, 254-255} x 3 templates
x platform x protocol_nr.
"""
from __future__ import annotations

from itertools import product

from vf.gen import alpha as G
from vf.refsem import golden
from vf.refsem import sets as S
from vf.refsem.reader import Reader, Reject

ID = "C18"
LEVEL = "exploration"
RULE = ("every request list up to the stated length x every parameter combination; non-trivial = "
        "distinct (parameters, request) that was not refused and produced at least two lines or a "
        "range line")
ASSUMPTIONS = ["a port operator after a NUMERIC protocol is treated as not valid for the platform "
               "(the library itself always renders the keyword when ports are present)",
               "a documented refusal is ValueError/TypeError (e.g. an a-b token with an 'eq' template, "
               "several eq operands on NX-OS)", "readers define validity for the platform"]
REQUIRED = ["generated_ok", "refused", "range_line", "multi_operand_eq_line", "protocols_ok",
            "both_sides_ok"]

KF_RANGE_TEMPLATE = "C18:range_ports:range_template_two_single_ports_in_one_line"
TOKENS = ["1", "2", "3", "5", "www", "65535", "1-2", "2-4", "7-7", "21-23", "65534-65535", "",
          "220", "99-101", "1500", "8-11"]  # different digit counts: text order != numeric order
TEMPLATES = [
    ("permit tcp any any", None),
    ("permit udp any any", None),
    ("permit tcp any {eq} any {eq}", "eq"),          # `eq` on the generated side
    ("permit tcp any {range} any {range}", "range"),  # `range` on the generated side
    ("10 deny tcp host 10.0.0.1 any", None),
    ("permit tcp any {other} any {other} log", "other"),  # other side carries a port, log
    ("deny udp any {orange} any {orange}", "orange"),      # other side carries a RANGE
]
PTOKENS = ["0", "1", "6", "17", "255", "1-2", "5-7", "254-255"]
PTOKENS_MORE = ["4", "8", "41", "47", "50", "51", "88", "89", "94", "103", "108", "3-9", "40-42"]  # names on some platforms only
PTEMPLATES = ["permit ip any any", "deny ip host 10.0.0.1 any log",
              "10 permit ip any 10.0.0.0 0.0.0.255", "permit tcp any eq 5000 any eq 6000 log",
              "permit tcp any eq 3000 any", "deny udp any any range 3000 3010 log"]  # one side only


def _L(tier):
    return 2 if tier == "quick" else 3


def describe(tier, seed):
    return dict(max_tokens=_L(tier), tokens=TOKENS, templates=[t for t, _ in TEMPLATES],
                port_count=[1, 2, 3], protocol_tokens=PTOKENS)


def units(tier, seed):
    out = []
    for plat in G.PLATFORMS:
        for ti in range(len(TEMPLATES)):
            for side in ("src", "dst"):
                for pc in (1, 2, 3):
                    out.append(dict(kind="ports", platform=plat, template=ti, side=side, port_count=pc))
        out.append(dict(kind="both", platform=plat))
        for ti in range(len(PTEMPLATES)):
            out.append(dict(kind="protocols", platform=plat, ptemplate=ti))
    return out


def run_unit(unit, ctx):
    if unit["kind"] == "ports":
        for n in range(0, _L(ctx.tier) + 1):
            for toks in product(TOKENS, repeat=n):
                for port_range in (True, False):
                    for port_nr in (False, True):
                        check_ports(unit["platform"], unit["template"], unit["side"], ",".join(toks),
                                    unit["port_count"], port_range, port_nr, ctx)
        ctx.sample("ports", dict(unit, request="1,2-4,www"))
    elif unit["kind"] == "both":
        _both(unit["platform"], ctx)
    else:
        _protocols(unit["platform"], ctx, unit.get("ptemplate"))


def replay(case, ctx):
    if case["kind"] == "ports":
        check_ports(case["platform"], case["template"], case["side"], case["request"],
                    case["port_count"], case["port_range"], case["port_nr"], ctx)
    elif case["kind"] == "both":
        _both(case["platform"], ctx)
    else:
        _protocols(case["platform"], ctx)


# ------------------------------------------------------------------------------------------------


def requested_ports(request, proto="tcp"):
    """Set denoted by the request string, and the list of (lo, hi) range tokens."""
    want, ranges = set(), []
    for tok in request.split(","):
        if not tok:
            continue
        if "-" in tok:
            lo, hi = map(int, tok.split("-"))
            want.update(range(lo, hi + 1))
            ranges.append((lo, hi))
        elif tok.isdigit():
            want.add(int(tok))
        else:
            want.add(golden.PORTS[proto][tok])
    return want, ranges


def _template(ti, side):
    text, kind = TEMPLATES[ti]
    if kind is None:
        return text
    gen, oth = (0, 1) if side == "src" else (1, 0)
    fill = ["", ""]
    if kind == "eq":
        fill[gen] = "eq 9"
    elif kind == "range":
        fill[gen] = "range 8 9"
    elif kind == "orange":
        fill[oth] = "range 1024 1030"
    else:
        fill[oth] = "eq 443"
    parts = text.split("{" + kind + "}")
    return " ".join((parts[0] + fill[0] + parts[1] + fill[1] + parts[2]).split())


def check_ports(platform, ti, side, request, port_count, port_range, port_nr, ctx):
    from cisco_acl import range_ports

    template = _template(ti, side)
    proto = "udp" if " udp " in template else "tcp"
    ctx.ev()
    case = dict(kind="ports", platform=platform, template=ti, template_text=template, side=side,
                request=request, port_count=port_count, port_range=port_range, port_nr=port_nr)
    kw = dict(line=template, platform=platform, port_nr=port_nr, port_count=port_count,
              port_range=port_range)
    kw["srcports" if side == "src" else "dstports"] = request
    try:
        lines = range_ports(**kw)
    except (ValueError, TypeError):
        ctx.out("refused")
        return
    except Exception as ex:  # noqa
        ctx.viol("range_ports:undocumented_exception", case, repr(ex), "lines or ValueError/TypeError")
        return
    tkind = TEMPLATES[ti][1]
    _check_lines(platform, template, side, request, proto, lines, port_count, port_range,
                 None if tkind in ("other", "orange") else tkind, case, ctx)


def _check_lines(platform, template, side, request, proto, lines, port_count, port_range, tkind,
                 case, ctx, label="range_ports"):
    vocab = G.port_vocab(platform, "")
    rd = Reader(platform, port_names=vocab)
    try:
        tmpl = Reader("ios" if platform == "ios" else "nxos", port_names=vocab).read_line(template)
    except Reject:
        tmpl = Reader("ios").read_line(template)
    want, ranges = requested_ports(request, proto)
    if not want:
        if lines:
            ctx.viol(f"{label}:lines_for_empty_request", case, lines, [])
        return
    got_mask = 0
    n_range = n_multi = 0
    for ln in lines:
        try:
            r = rd.read_line(ln)
        except Reject as ex:
            ctx.viol(f"{label}:line_not_valid_for_platform", dict(case, line=ln), str(ex),
                     f"valid {platform} line")
            return
        gen_mask = r.sport if side == "src" else r.dport
        oth_mask, oth_tmpl = (r.dport, tmpl.dport) if side == "src" else (r.sport, tmpl.sport)
        if (r.action, r.proto, r.src, r.dst, r.flags, r.seq, r.logs, oth_mask) != \
                (tmpl.action, tmpl.proto, tmpl.src, tmpl.dst, tmpl.flags, tmpl.seq, tmpl.logs, oth_tmpl):
            ctx.viol(f"{label}:line_differs_from_template_outside_the_generated_field",
                     dict(case, line=ln), repr(r), repr(tmpl))
            return
        expr = r._exprs[0 if side == "src" else 1]
        if expr is None:
            ctx.viol(f"{label}:line_without_generated_port", dict(case, line=ln), ln, "a port expression")
            return
        op, operands = expr
        if op == "eq" and len(operands) > port_count:
            ctx.viol(f"{label}:more_operands_than_port_count", dict(case, line=ln), len(operands),
                     port_count)
            return
        if op == "eq" and len(operands) > 1:
            n_multi += 1
        if op == "range":
            n_range += 1
            if tkind is None and (not port_range):
                ctx.viol(f"{label}:range_line_although_port_range_false", dict(case, line=ln), ln,
                         "eq lines only")
                return
            if tkind is None and (min(operands), max(operands)) not in ranges:
                ctx.viol(f"{label}:range_line_is_no_requested_token", dict(case, line=ln), operands,
                         ranges)
                return
        elif op != "eq" and tkind is None:
            ctx.viol(f"{label}:unexpected_operator", dict(case, line=ln), op, "eq or range")
            return
        got_mask |= gen_mask
    if tkind is None and port_range and n_range != len(ranges):
        ctx.viol(f"{label}:range_tokens_not_one_line_each", case, lines, ranges)
        return
    got = set(S.mask_to_list(got_mask))
    if got != want:
        kf = None
        if tkind == "range" and port_count >= 2 and not (want - got) and (got - want) and \
                all(len(r._exprs[0 if side == "src" else 1][1]) == 2 for r in map(rd.read_line, lines)):
            kf = KF_RANGE_TEMPLATE
        ctx.viol(f"{label}:generated_set_differs_from_request" + (":range_template" if kf else ""),
                 case, dict(lines=lines, missing=sorted(want - got)[:8], extra=sorted(got - want)[:8]),
                 sorted(want)[:20], kf=kf)
        return
    ctx.out("generated_ok")
    if n_range:
        ctx.out("range_line")
    if n_multi:
        ctx.out("multi_operand_eq_line")
    if len(lines) > 1 or n_range:
        ctx.nt((str(sorted(case.items()))))


def _both(platform, ctx):
    """Both sides requested in one call: source lines then destination lines, each differing from
    the template in one field only."""
    from cisco_acl import range_ports

    reqs = ["1", "1,3", "2-4", "1,2-4,www", "65534-65535,5"]
    for s, d in product(reqs, repeat=2):
        for pc in (1, 2):
            for port_range in (True, False):
                ctx.ev()
                template = "permit tcp any any"
                case = dict(kind="both", platform=platform, src=s, dst=d, port_count=pc,
                            port_range=port_range)
                try:
                    lines = range_ports(srcports=s, dstports=d, line=template, platform=platform,
                                        port_count=pc, port_range=port_range)
                except (ValueError, TypeError):
                    ctx.out("refused")
                    continue
                except Exception as ex:  # noqa
                    ctx.viol("range_ports:undocumented_exception", case, repr(ex), "lines")
                    continue
                rd = Reader(platform, port_names=G.port_vocab(platform, ""))
                try:
                    rules = [rd.read_line(ln) for ln in lines]
                except Reject as ex:
                    ctx.viol("range_ports:line_not_valid_for_platform", case, str(ex), "valid")
                    continue
                src_lines = [ln for ln, r in zip(lines, rules) if r._exprs[0] and not r._exprs[1]]
                dst_lines = [ln for ln, r in zip(lines, rules) if r._exprs[1] and not r._exprs[0]]
                if len(src_lines) + len(dst_lines) != len(lines):
                    ctx.viol("range_ports:line_changes_both_sides", case, lines,
                             "each line differs from the template in one field")
                    continue
                before = len(ctx.violations)
                _check_lines(platform, template, "src", s, "tcp", src_lines, pc, port_range, None,
                             dict(case, part="src"), ctx)
                _check_lines(platform, template, "dst", d, "tcp", dst_lines, pc, port_range, None,
                             dict(case, part="dst"), ctx)
                if len(ctx.violations) == before:
                    ctx.out("both_sides_ok")
    ctx.sample("both", dict(platform=platform))


def _protocols(platform, ctx, only=None):
    from cisco_acl import range_protocols

    from vf.refsem.reader import PROTO_NAMES

    seqs = [toks for n in (1, 2, 3) for toks in product(PTOKENS, repeat=n)]
    seqs += [(t,) for t in PTOKENS_MORE] + [(a, b) for a in PTOKENS_MORE for b in ("6", "1-2")] + \
        [(b, a) for a in PTOKENS_MORE for b in ("17",)]
    for _once in (1,):
        for toks in seqs:
            request = ",".join(toks)
            want = set()
            for t in toks:
                if "-" in t:
                    lo, hi = map(int, t.split("-"))
                    want.update(range(lo, hi + 1))
                else:
                    want.add(int(t))
            for template in (PTEMPLATES if only is None else [PTEMPLATES[only]]):
                if (" eq " in template or " range " in template) and not want <= {6, 17}:
                    continue  # a template with ports makes sense for tcp/udp only
                for pnr in (False, True):
                    ctx.ev()
                    case = dict(kind="protocols", platform=platform, request=request,
                                template=template, protocol_nr=pnr)
                    try:
                        lines = range_protocols(protocols=request, line=template, platform=platform,
                                                protocol_nr=pnr)
                    except (ValueError, TypeError):
                        ctx.out("refused")
                        continue
                    except Exception as ex:  # noqa
                        ctx.viol("range_protocols:undocumented_exception", case, repr(ex), "lines")
                        continue
                    rd = Reader(platform)
                    tmpl = Reader("ios").read_line(template)
                    got = set()
                    ok = True
                    for ln in lines:
                        try:
                            r = rd.read_line(ln)
                        except Reject as ex:
                            ctx.viol("range_protocols:line_not_valid_for_platform", dict(case, line=ln),
                                     str(ex), f"valid {platform}")
                            ok = False
                            break
                        if (r.action, r.src, r.dst, r.sport, r.dport, r.flags, r.seq, r.logs) != \
                                (tmpl.action, tmpl.src, tmpl.dst, tmpl.sport, tmpl.dport, tmpl.flags,
                                 tmpl.seq, tmpl.logs):
                            ctx.viol("range_protocols:line_differs_outside_the_protocol",
                                     dict(case, line=ln), repr(r), repr(tmpl))
                            ok = False
                            break
                        tok = ln.split()[2 if ln.split()[0].isdigit() else 1]
                        if (r._exprs[0] or r._exprs[1]) and tok.isdigit():
                            ctx.viol("range_protocols:port_operator_after_numeric_protocol",
                                     dict(case, line=ln), ln, "tcp/udp keyword when ports are present")
                            ok = False
                            break
                        if (r._exprs[0] or r._exprs[1]):
                            got.add(r.proto)
                            continue
                        if pnr and not tok.isdigit():
                            ctx.viol("range_protocols:protocol_nr_ignored", dict(case, line=ln), tok,
                                     "number")
                            ok = False
                            break
                        if not pnr and tok.isdigit() and any(
                                golden.PROTO[nm] == int(tok) for nm in PROTO_NAMES[platform]):
                            ctx.viol("range_protocols:name_expected", dict(case, line=ln), tok, "name")
                            ok = False
                            break
                        got.add(r.proto)
                    if not ok:
                        continue
                    if got != want:
                        ctx.viol("range_protocols:generated_set_differs_from_request", case,
                                 dict(lines=lines, got=sorted(got)), sorted(want))
                        continue
                    ctx.out("protocols_ok")
                    if len(lines) > 1:
                        ctx.nt(("proto", platform, request, template, pnr))
    ctx.sample("protocols", dict(platform=platform, request="1-2,6"))
