"""C06 - rendered text is a fixed point of the parser at every object level.

For every exported class X over a bounded grammar: l1 = X(input).line with the same platform,
version, switches and indent.  Native input: X(l1).line == l1 and X(l1).data() == X(input).data().
Accepted foreign spelling: with l2 = X(l1).line, X(l2).line == l2 and the meaning of l2 (by the
independent reader) equals the meaning of the input.  Native/foreign comes from the generator.
"""
from __future__ import annotations

from itertools import combinations, product

from vf.gen import alpha as G
from vf.gen import programs as PR
from vf.refsem import sets as S
from vf.refsem.packets import same_packets
from vf.refsem.reader import Reader, Reject

ID = "C06"
LEVEL = "exploration"
RULE = ("per class a bounded grammar enumerated completely; non-trivial = distinct (class, "
        "configuration, input) whose first rendering differs from the (blank-normalised) input, i.e. "
        "the parser really normalised something, or that is an ACL/group with >= 2 lines")
ASSUMPTIONS = ["native/foreign classification comes from the generator, never from the outcome",
               "data() is compared without identifiers (uuid=False)"]
REQUIRED = ["native_fixpoint", "foreign_converged", "normalised_input", "acl_level", "config_level",
            "remark_tricky", "setter_fixpoint",
            "name_as_data_ok", "members_as_data_ok"]


def describe(tier, seed):
    return dict(ace_plan=_ace_plan(tier, seed), acl_max_items=_L(tier),
                indents=["", " ", "  ", "\t"], remark_texts=REMARKS)


def _L(tier):
    return 2 if tier == "quick" else 3


def _ace_plan(tier, seed):
    c = G.configs("quick", seed)
    if tier == "thorough":
        return [(x, 2 if i in (0, 7) else 1) for i, x in enumerate(G.configs("thorough", seed))]
    return [(c[0], 2), (c[7], 1), (c[3], 1), (c[4], 1)]


REMARKS = ["text", "10 permit ip any any", "permit ip any any", "= heading, x", "a  b\t c",
           "!@#$%^&*()_+-=[]{};':,./<>", "remark", "deny", "0", "ip access-list extended X",
           "trailing ", "x" * 90]
# option tokens must start with a lower-case letter (documented limitation of Option)
OPTION_TOKENS = ["ack", "syn", "log", "log-input", "established", "fragments", "dscp ef",
                 "precedence critical", "time-range tr"]
ACL_NAMES = ["A", "A-1", "a_b.c", "101", "x" * 40, "N@me!"]


def units(tier, seed):
    out = [dict(kind="port"), dict(kind="protocol"), dict(kind="option"), dict(kind="wildcard"),
           dict(kind="address"), dict(kind="address_ag"), dict(kind="remark")]
    for plat in G.PLATFORMS:
        for numbered in (False, True):
            out.append(dict(kind="addrgroup", platform=plat, numbered=numbered))
    for ci, (_cfg, d) in enumerate(_ace_plan(tier, seed)):
        for bi in range(3):
            out.append(dict(kind="ace", cfg=ci, base=bi, fields=[]))
            for k in range(1, d + 1):
                for fields in combinations(G.FIELDS, k):
                    out.append(dict(kind="ace", cfg=ci, base=bi, fields=list(fields)))
    out.append(dict(kind="ace_standard"))
    for plat in ("asa", "ios", "nxos"):
        for pname in ("tcp", "udp"):
            for ver in (G.VERSIONS if plat != "asa" else ("",)):
                for port_nr in (False, True):
                    for part in ("ace", "containers"):
                        out.append(dict(kind="ace_names", platform=plat, proto=pname, version=ver,
                                        port_nr=port_nr, part=part))
    n = len(acl_items(seed))
    for plat in G.PLATFORMS:
        for cls in ("Acl", "AceGroup"):
            for first in range(n):
                out.append(dict(kind="acl", cls=cls, platform=plat, first=first))
        out.append(dict(kind="acl_misc", platform=plat))
    out.append(dict(kind="acl_standard"))
    return out


def run_unit(unit, ctx):
    globals()["_" + unit["kind"]](unit, ctx)


def replay(case, ctx):
    k = case["kind"]
    if k == "generic":
        _generic(case["cls"], case["input"], case["kwargs"], case["native"], ctx)
    else:
        globals()["_" + case["unit"]["kind"]](case["unit"], ctx)


# ------------------------------------------------------------------------------------------------


def _cls(name):
    import cisco_acl

    return getattr(cisco_acl, name)


def _norm(text):
    return "\n".join(" ".join(ln.split()) for ln in text.split("\n") if ln.strip())


def _generic(cls, text, kwargs, native, ctx, meaning=None, unit=None):
    """Fixed-point check for one (class, input, configuration).

    :param meaning: callable(line) -> comparable meaning, applied to input-derived expectation
        by the caller: (expected_meaning, reader) or None.
    """
    ctx.ev()
    X = _cls(cls)
    case = dict(kind="generic", cls=cls, input=text, kwargs=kwargs, native=native)
    try:
        o0 = X(text, **kwargs)
    except (ValueError, TypeError) as ex:
        ctx.viol(f"{cls}:valid_input_rejected", case, repr(ex), "accepted")
        return None
    l1 = o0.line
    try:
        o1 = X(l1, **kwargs)
    except (ValueError, TypeError) as ex:
        ctx.viol(f"{cls}:own_rendering_rejected", dict(case, l1=l1), repr(ex), "accepted")
        return None
    l2 = o1.line
    if native:
        if l2 != l1:
            ctx.viol(f"{cls}:not_a_fixed_point", dict(case, l1=l1), l2, l1)
            return o0
        d0, d1 = o0.data(), o1.data()
        if d0 != d1:
            diff = {k: (d0.get(k), d1.get(k)) for k in set(d0) | set(d1) if d0.get(k) != d1.get(k)}
            ctx.viol(f"{cls}:data_differs_after_reparse", dict(case, l1=l1),
                     {k: repr(v[1])[:200] for k, v in diff.items()},
                     {k: repr(v[0])[:200] for k, v in diff.items()})
            return o0
        ctx.out("native_fixpoint")
    else:
        try:
            l3 = X(l2, **kwargs).line
        except (ValueError, TypeError) as ex:
            ctx.viol(f"{cls}:own_rendering_rejected", dict(case, l2=l2), repr(ex), "accepted")
            return o0
        if l3 != l2:
            ctx.viol(f"{cls}:foreign_not_stable_from_first_reparse", dict(case, l1=l1, l2=l2), l3, l2)
            return o0
        ctx.out("foreign_converged")
    if meaning is not None:
        want, read = meaning
        try:
            got = read(l2)
        except Reject as ex:
            ctx.viol(f"{cls}:rendering_not_valid_syntax", dict(case, l2=l2), str(ex), "valid")
            return o0
        if got != want:
            ctx.viol(f"{cls}:meaning_lost", dict(case, l2=l2), repr(got), repr(want))
    if _norm(text) != _norm(l1):
        ctx.out("normalised_input")
        ctx.nt((cls, str(sorted(kwargs.items())), text))
    return o0


# ---- small classes


def _port(unit, ctx):
    for cfg in G.configs("thorough", ctx.seed):
        plat, ver = cfg["platform"], cfg["version"]
        if cfg["protocol_nr"]:
            continue
        for proto, pname in ((6, "tcp"), (17, "udp")):
            for px in G.port_alphabet(ctx.seed, plat):
                for text, native in px.spellings(proto, plat, ver):
                    kw = dict(platform=plat, version=ver, protocol=pname, port_nr=cfg["port_nr"])
                    _generic("Port", text, kw, native, ctx)
            # every name of the configuration
            for name in sorted(G.port_vocab(plat, ver)[pname]):
                kw = dict(platform=plat, version=ver, protocol=pname, port_nr=cfg["port_nr"])
                _generic("Port", f"eq {name}", kw, True, ctx)
                _generic("Port", f"range {name} 65535", kw, True, ctx)
                if plat == "ios":  # one port spelled twice in one list (number + name, twice the name)
                    from vf.refsem import golden

                    nr = golden.PORTS[pname].get(name)
                    if nr:
                        _generic("Port", f"eq {nr} {name}", kw, True, ctx)
                        _generic("Port", f"neq {name} {nr} {name}", kw, True, ctx)
                        _generic("Port", f"eq {name} 1 0{nr}", kw, True, ctx)
    ctx.sample("port", "eq www 443")


def _protocol(unit, ctx):
    from vf.refsem import golden

    for plat in ("ios", "nxos", "asa"):
        for pnr in (False, True):
            for has_port in (False, True):
                kw = dict(platform=plat, protocol_nr=pnr, has_port=has_port)
                for n in range(256):
                    _generic("Protocol", str(n), kw, True, ctx)
                for name in sorted(golden.PROTO):
                    _generic("Protocol", name, kw, True, ctx)
    ctx.sample("protocol", "ahp")


def _option(unit, ctx):
    for n in range(0, 4):
        for toks in product(OPTION_TOKENS, repeat=n):
            for plat in G.PLATFORMS:
                _generic("Option", " ".join(toks), dict(platform=plat), True, ctx)
                if n == 2:
                    _generic("Option", "  " + " \t ".join(toks) + " ", dict(platform=plat), True, ctx)
    ctx.sample("option", "ack dscp ef log")


def _wildcard(unit, ctx):
    base = G.window(ctx.seed) | 0x5A
    for r in range(33):
        low = (1 << r) - 1
        for extra in ((), (r + 1,), (r + 2, 31), (r + 1, r + 3, r + 9)):
            if any(e > 31 for e in extra):
                continue
            mask = low
            for e in extra:
                mask |= 1 << e
            for b in (base, 0, S.ALL32):
                text = f"{S.int2ip(b)} {S.int2ip(mask)}"
                cube = S.cube(b, mask)
                _generic("Wildcard", text, {}, True, ctx,
                         meaning=(cube, lambda ln: S.cube(*(S.ip2int(t) for t in ln.split()))))
    ctx.sample("wildcard", "10.0.0.90 0.0.1.3")


def _addr_meaning(adr, platform):
    def read(line):
        cubes, grp = Reader(platform)._addr(line.split())
        return tuple(cubes), grp

    return ((() if adr.group else adr.cubes), adr.group), read


def _address(unit, ctx):
    for plat in G.PLATFORMS:
        for adr in G.addr_alphabet(ctx.seed, groups=True):
            for text, native in adr.spellings(plat):
                kw = dict(platform=plat)
                if adr.group:
                    kw["items"] = [m.spellings(plat)[0][0] for m in adr.members]
                o = _generic("Address", text, kw, native, ctx, meaning=_addr_meaning(adr, plat))
                if o is not None and adr.group:
                    # members are part of the exported data: rebuild and compare
                    X = _cls("Address")
                    o2 = X(**o.data())
                    if [m.line for m in o2.items] != [m.line for m in o.items] or o2.data() != o.data():
                        ctx.viol("Address:members_lost_on_rebuild", dict(kind="generic", cls="Address",
                                 input=text, kwargs=kw, native=native), o2.data(), o.data())
                for sp in ("  " + text.replace(" ", " \t ") + " ",):
                    _generic("Address", sp, kw, native, ctx, meaning=_addr_meaning(adr, plat))
    ctx.sample("address", "10.0.0.5/24 on ios (foreign)")


def _address_ag(unit, ctx):
    from vf.checks.c02 import _ag_spellings

    for plat in G.PLATFORMS:
        for adr in G.addr_alphabet(ctx.seed):
            spells = _ag_spellings(adr, plat)
            for i, text in enumerate(spells):
                native = i == 0 or (text.startswith("host ") or (plat == "nxos"))
                for seq in (("", "10 ", "4294967295 ") if plat == "nxos" else ("",)):
                    def read(line, plat=plat):
                        head = "object-group network G" if plat == "ios" else "object-group ip address G"
                        m = Reader(plat).read_addrgroup(f"{head}\n {line}")["members"][0]
                        return m[0], m[1]

                    want = (int(seq) if seq else 0, adr.cubes[0])
                    _generic("AddressAg", seq + text, dict(platform=plat), native, ctx,
                             meaning=(want, read))
        if plat == "ios":
            _generic("AddressAg", "group-object NESTED", dict(platform=plat), True, ctx)
    ctx.sample("address_ag", "10 10.0.0.0/24")


def _remark(unit, ctx):
    for plat in G.PLATFORMS:
        for text in REMARKS:
            for seq in ("", "10 ", "4294967295 "):
                want = " ".join(text.split())
                o = _generic("Remark", f"{seq}remark {text}", dict(platform=plat), True, ctx)
                if o is not None:
                    ctx.out("remark_tricky")
                    if o.text != want or o.sequence != (int(seq) if seq else 0):
                        ctx.viol("Remark:text_or_sequence", dict(kind="generic", cls="Remark",
                                 input=f"{seq}remark {text}", kwargs=dict(platform=plat), native=True),
                                 (o.sequence, o.text), (seq, want))
    ctx.sample("remark", "10 remark 10 permit ip any any")


def _addrgroup(unit, ctx):
    from vf.checks.c02 import _ag_spellings

    plat, numbered = unit["platform"], unit["numbered"]
    if numbered and plat == "ios":
        return
    al = {a.label: a for a in G.addr_alphabet(ctx.seed)}
    pool = [al[k] for k in ("host1", "net30", "net24", "ext24")]
    if plat == "nxos":
        pool.append(al["nc_low_run_plus_bit"])
    heads = ["object-group network {}", ] if plat == "ios" else ["object-group ip address {}"]
    for name in ("G", "G-1_x.y"):
        for n in (1, 2, 3):
            for members in product(range(len(pool)), repeat=n):
                for indent in ("", " ", "  ", "\t"):
                    lines = [(f"{10 * (k + 1)} " if numbered else "") + _ag_spellings(pool[mi], plat)[0]
                             for k, mi in enumerate(members)]
                    text = heads[0].format(name) + "\n" + "\n".join("   " + ln for ln in lines)
                    kw = dict(platform=plat, indent=indent)

                    def read(line, plat=plat):
                        g = Reader(plat).read_addrgroup(line)
                        return g["name"], [(m[0], m[1]) for m in g["members"]]

                    want = (name, [((10 * (k + 1)) if numbered else 0, pool[mi].cubes[0])
                                   for k, mi in enumerate(members)])
                    o = _generic("AddrGroup", text, kw, True, ctx, meaning=(want, read))
                    if o is not None and indent:
                        _config_level("addrgroups", o.line, dict(platform=plat, indent=indent), ctx)
    if not numbered:
        _names_given_as_data(plat, ctx)
        if plat == "ios":
            # (prefix notation exported on NX-OS is an accepted foreign spelling on IOS; the other
            # direction is not: "A M" means wildcard bits on NX-OS)
            _members_given_as_data(plat, ctx)
    ctx.sample("addrgroup", dict(platform=plat, numbered=numbered))


def _members_given_as_data(plat, ctx):
    """A group whose members are given as a mixture of strings and DICTIONARIES exported on the
    other platform (a dictionary is re-read for the group's platform): the rendered text is native
    and a fixed point."""
    from cisco_acl import AddrGroup, AddressAg

    other = "nxos" if plat == "ios" else "ios"
    foreign = ["10.1.0.0/24", "host 10.1.1.1", "10.2.0.0/16"] if other == "nxos" else \
        ["10.1.0.0 255.255.255.0", "host 10.1.1.1", "10.2.0.0 255.255.0.0"]
    own = "host 10.9.9.9"
    for n in (1, 2, 3):
        for combo in product(range(len(foreign)), repeat=n):
            for pos in range(n + 1):
                ctx.ev()
                items = [AddressAg(foreign[i], platform=other).data() for i in combo]
                items.insert(pos, own)
                case = dict(kind="generic", cls="AddrGroup(items=str+dict)", input=[foreign[i] for i in combo],
                            kwargs=dict(platform=plat, pos=pos), native=True)
                try:
                    grp = AddrGroup(name="G", platform=plat, items=items)
                    l1 = grp.line
                    again = AddrGroup(l1, platform=plat)
                    mem = Reader(plat).read_addrgroup(l1)["members"]
                except (ValueError, TypeError, Reject) as ex:
                    ctx.viol("AddrGroup:members_from_dictionaries:rejected_or_not_native", case, repr(ex),
                             "native text accepted again")
                    continue
                if again.line != l1 or again.data() != AddrGroup(l1, platform=plat).data() or \
                        len(mem) != n + 1 or [m.line for m in again.items] != [m.line for m in grp.items]:
                    ctx.viol("AddrGroup:members_from_dictionaries:not_a_fixed_point", dict(case, l1=l1),
                             again.line, l1)
                else:
                    ctx.out("members_as_data_ok")


def _names_given_as_data(plat, ctx):
    """Names that reach an object as DATA (name= keyword, the name setter, a header with extra
    blanks inside a configuration) survive in normalised form: the rendered text is a fixed point
    that carries exactly that name."""
    import cisco_acl
    from cisco_acl import Acl, AddrGroup

    ghead = "object-group network" if plat == "ios" else "object-group ip address"
    ahead = "ip access-list extended" if plat == "ios" else "ip access-list"
    member, entry = "host 10.0.0.1", "permit ip any any"
    for raw in ("X", " X", "X ", " X ", "X\n", "\tX", "X  ", "  G-1_x.y  "):
        name = raw.strip()
        builds = [
            ("AddrGroup(name=)", lambda: AddrGroup(name=raw, items=[member], platform=plat)),
            ("AddrGroup.name=", lambda: _set(AddrGroup(f"{ghead} Q\n {member}", platform=plat), "name", raw)),
            ("Acl(name=)", lambda: Acl(name=raw, items=[entry], platform=plat)),
            ("Acl.name=", lambda: _set(Acl(f"{ahead} Q\n {entry}", platform=plat), "name", raw)),
        ]
        if "\n" not in raw:
            builds += [
                ("addrgroups(header)", lambda: cisco_acl.addrgroups(f"{ghead} {raw}\n {member}\n", platform=plat)[0]),
                ("acls(header)", lambda: cisco_acl.acls(f"{ahead} {raw}\n {entry}\n", platform=plat)[0]),
                ("AddrGroup(header)", lambda: AddrGroup(f"{ghead} {raw}\n {member}", platform=plat)),
                ("Acl(header)", lambda: Acl(f"{ahead} {raw}\n {entry}", platform=plat)),
            ]
        for label, build in builds:
            ctx.ev()
            case = dict(kind="generic", cls=label, input=raw, kwargs=dict(platform=plat), native=True)
            try:
                obj = build()
            except (ValueError, TypeError, IndexError):
                ctx.out("padded_name_refused")
                continue
            l1 = obj.line
            try:
                again = type(obj)(l1, platform=plat)
            except (ValueError, TypeError) as ex:
                ctx.viol(f"{label}:own_rendering_rejected", dict(case, l1=l1), repr(ex), "accepted")
                continue
            if obj.name != name or again.name != name or again.line != l1 or \
                    l1.split("\n")[0].split(" ")[-1] != name:
                ctx.viol(f"{label}:name_not_normalised", dict(case, l1=l1),
                         dict(name=obj.name, reparsed=again.name, header=l1.split("\n")[0]), name)
            else:
                ctx.out("name_as_data_ok")


def _set(obj, attr, value):
    setattr(obj, attr, value)
    return obj


def _config_level(func, text, kwargs, ctx):
    import cisco_acl

    ctx.ev()
    case = dict(kind="generic", cls=func, input=text, kwargs=kwargs, native=True)
    try:
        objs = getattr(cisco_acl, func)(text, **kwargs)
    except Exception as ex:  # noqa
        ctx.viol(f"{func}:rendered_text_rejected", case, repr(ex), "objects")
        return
    if func == "aces":
        got = "\n".join(o.line for o in objs)
        want = "\n".join(" ".join(ln.split()) for ln in text.split("\n")[1:])
    else:
        got = "\n".join(o.line for o in objs)
        want = text
    if got != want:
        ctx.viol(f"{func}:rendered_text_not_a_fixed_point", case, got, want)
    else:
        ctx.out("config_level")


# ---- ACE


def _ace(unit, ctx):
    cfg, _d = _ace_plan(ctx.tier, ctx.seed)[unit["cfg"]]
    plat, ver = cfg["platform"], cfg["version"]
    base = G.bases(ctx.seed)[unit["base"]]
    alph = G.field_alphabets(ctx.seed, plat, groups=True)
    fields = tuple(unit["fields"])
    pools = [[v for v in alph[f] if v != getattr(base, f)] for f in fields]
    vocab = G.port_vocab(plat, ver)
    for combo in product(*pools):
        kw = {f: getattr(base, f) for f in G.FIELDS}
        kw.update(dict(zip(fields, combo)))
        acex = G.AceX(**kw)
        if not acex.valid(plat):
            continue
        dims = {}
        if "src" in fields:
            dims["src"] = range(len(acex.src.spellings(plat)))
        if "dst" in fields:
            dims["dst"] = range(len(acex.dst.spellings(plat)))
        if "sport" in fields:
            dims["sport"] = range(len(acex.sport.spellings(acex.proto, plat, ver)))
        if "dport" in fields:
            dims["dport"] = range(len(acex.dport.spellings(acex.proto, plat, ver)))
        if "proto" in fields:
            dims["proto"] = range(len(G.proto_spellings(acex.proto, plat)))
        keys = list(dims)
        want = acex.rule(resolve_groups=False)
        for choice in product(*[dims[k] for k in keys]):
            sp = dict(zip(keys, choice))
            native = True
            for key, lst in (("src", acex.src.spellings(plat)), ("dst", acex.dst.spellings(plat)),
                             ("proto", G.proto_spellings(acex.proto, plat))):
                if key in sp and not lst[min(sp[key], len(lst) - 1)][1]:
                    native = False
            text = acex.text(plat, ver, sp)

            def read(line):
                return Reader(plat, port_names=vocab).read_line(line)

            _generic("Ace", text, dict(cfg), native, ctx,
                     meaning=(_M(want), lambda ln: _M(read(ln))))
    ctx.sample("ace", dict(cfg=cfg, fields=fields))


class _M:
    """Meaning wrapper: same packets + seq/logs/flags/groups."""

    def __init__(self, rule):
        self.rule = rule

    def __eq__(self, other):
        a, b = self.rule, other.rule
        return (same_packets(a, b) and a.seq == b.seq and a.logs == b.logs
                and a.flag_tokens == b.flag_tokens and a.src_group == b.src_group
                and a.dst_group == b.dst_group)

    def __repr__(self):
        return repr(self.rule)


def _ace_names(unit, ctx):
    """Every port number that has a name in ANY table (and every name of this configuration), on
    the source and on the destination side of an entry, through Ace / AceGroup / Acl - platform asa
    included: what is rendered (name or number) must be read back at that position."""
    from vf.refsem import golden

    plat, pname, ver = unit["platform"], unit["proto"], unit["version"]
    numbers = sorted(set(golden.PORTS[pname].values()) | {1, 4000, 65535})
    names = sorted(G.port_vocab(plat, ver)[pname])
    head = "ip access-list extended A" if plat != "nxos" else "ip access-list A"
    for port_nr in (unit["port_nr"],):
        kw = dict(platform=plat, version=ver, port_nr=port_nr)
        for tok in [str(n) for n in numbers] + names:
            forms = [f"permit {pname} any eq {tok} any", f"permit {pname} any any eq {tok}",
                     f"deny {pname} any any neq {tok} log", f"permit {pname} any any range {tok} 65535",
                     f"permit {pname} any gt {tok} any lt {tok}"]
            if unit["part"] == "ace":
                for text in forms:
                    _generic("Ace", text, kw, True, ctx)
                continue
            for text in forms[1:3]:
                o = _generic("AceGroup", text, kw, True, ctx)
                if o is not None and len(o.items) != 1:
                    ctx.viol("AceGroup:entry_lost", dict(kind="generic", cls="AceGroup", input=text,
                                                          kwargs=kw, native=True), len(o.items), 1)
                o = _generic("Acl", head + "\n " + text, kw, True, ctx)
                if o is not None:
                    again = _cls("Acl")(o.line, **kw)
                    if len(o.items) != 1 or len(again.items) != 1:
                        ctx.viol("Acl:entry_lost_on_reparse", dict(kind="generic", cls="Acl",
                                                                   input=head + "\n " + text, kwargs=kw,
                                                                   native=True),
                                 (len(o.items), len(again.items)), (1, 1))
    ctx.sample("ace_names", dict(unit, numbers=len(numbers), names=len(names)))


def _ace_standard(unit, ctx):
    for adr in G.addr_alphabet(ctx.seed):
        for text, native in adr.spellings("ios"):
            if adr.is_nc and False:
                continue
            for seq in ("", "20 "):
                for log in ("", " log"):
                    line = f"{seq}permit {text}{log}"
                    _generic("Ace", line, dict(platform="ios"), native, ctx)
                    if text.startswith("host "):
                        _generic("Ace", f"{seq}deny {text[5:]}{log}", dict(platform="ios"), True, ctx)
    ctx.sample("ace_standard", "20 deny 10.0.0.1 log")


# ---- ACL / AceGroup


def acl_items(seed):
    from vf.checks.c02 import struct_items

    its = [it for it in struct_items(seed)]
    its.append(PR.Item("remark_digits", None, "10 permit ip any any"))
    return its


def _acl_fix(cls, text, kwargs, ctx, members=None):
    """Acl / AceGroup: fixed point of line and data; config-level functions on the rendering."""
    o = _generic(cls, text, kwargs, True, ctx)
    if o is None:
        return
    ctx.out("acl_level")
    if len(text.split("\n")) > 2:
        ctx.nt((cls, str(sorted(kwargs.items())), text))
    if cls == "Acl" and kwargs.get("indent", "  "):
        kw = {k: v for k, v in kwargs.items() if k in ("platform", "version", "indent", "port_nr",
                                                       "protocol_nr", "group_by")}
        _config_level("acls", o.line, kw, ctx)
        kw2 = {k: v for k, v in kw.items() if k != "indent"}
        _config_level("aces", o.line, kw2, ctx)


def _acl_after_setters(text, kwargs, ctx):
    """The switches set through the SETTERS of an existing (grouped) ACL are settings like the ones
    given to the constructor: the text rendered afterwards re-parses, with the settings the object
    reports, into the same text and data."""
    from cisco_acl import Acl

    for op in ("port_nr=True", "protocol_nr=True", "port_nr=True,False", "protocol_nr=True,port_nr=True",
               "platform=same"):
        ctx.ev()
        case = dict(kind="generic", cls="Acl", input=text, kwargs=kwargs, native=True, setters=op)
        try:
            acl = Acl(text, **kwargs)
            if op == "platform=same":
                acl.platform = kwargs["platform"]
            else:
                for part in op.split(","):
                    if "=" in part:
                        name, val = part.split("=")
                        setattr(acl, name, val == "True")
                    else:
                        setattr(acl, name, part == "True")
            l1 = acl.line
            kw2 = dict(kwargs, port_nr=acl.port_nr, protocol_nr=acl.protocol_nr)
            again = Acl(l1, **kw2)
        except (ValueError, TypeError) as ex:
            ctx.viol("Acl:own_rendering_rejected_after_setter", case, repr(ex), "accepted")
            continue
        if again.line != l1:
            ctx.viol("Acl:not_a_fixed_point_after_setter", dict(case, l1=l1), again.line, l1)
        elif again.data() != acl.data():
            d0, d1 = acl.data(), again.data()
            ctx.viol("Acl:data_differs_after_setter", dict(case, l1=l1),
                     {k: repr(d1.get(k))[:200] for k in d0 if d0.get(k) != d1.get(k)},
                     {k: repr(d0.get(k))[:200] for k in d0 if d0.get(k) != d1.get(k)})
        else:
            ctx.out("setter_fixpoint")


def _acl(unit, ctx):
    plat, cls = unit["platform"], unit["cls"]
    its = acl_items(ctx.seed)
    usable = [i for i, it in enumerate(its) if not it.is_ace or it.acex.valid(plat)]
    if unit["first"] not in usable:
        return
    for ln in range(1, _L(ctx.tier) + 1):
        for rest in product(usable, repeat=ln - 1):
            idx = (unit["first"],) + rest
            lines = [its[i].text(plat) for i in idx]
            for indent, name, group_by in (("  ", "A", ""), (" ", "A-1", "= "), ("", "a_b.c", ""),
                                           ("\t", "101", "")):
                if cls == "Acl":
                    text = PR.header(plat, name) + "\n" + "\n".join("    " + x for x in lines)
                    kw = dict(platform=plat, indent=indent)
                    if group_by:
                        kw["group_by"] = group_by
                        kw["version"] = "15.2(4)M"  # blocks must keep the ACL's name table
                    _acl_fix("Acl", text, kw, ctx)
                    if group_by:
                        _acl_after_setters(text, kw, ctx)
                else:
                    if indent != "  ":
                        continue
                    _acl_fix("AceGroup", "\n".join(lines), dict(platform=plat), ctx)
    ctx.sample("acl", dict(cls=cls, platform=plat, lines=lines))


def _acl_misc(unit, ctx):
    plat = unit["platform"]
    its = acl_items(ctx.seed)
    usable = [it for it in its if not it.is_ace or it.acex.valid(plat)]
    body = [usable[0].text(plat), usable[4].text(plat), usable[-1].text(plat)]
    for name in ACL_NAMES:
        for cfg in G.configs("quick", ctx.seed):
            if cfg["platform"] != plat:
                continue
            numbered = [f"{10 * (i + 1)} {b}" for i, b in enumerate(body)]
            for lines in (body, numbered):
                text = PR.header(plat, name) + "\n" + "\n".join(" " + x for x in lines)
                kw = dict(platform=plat, version=cfg["version"], port_nr=cfg["port_nr"],
                          protocol_nr=cfg["protocol_nr"], indent=" ")
                _acl_fix("Acl", text, kw, ctx)
    # fully numbered ACL, group_by, the same heading twice (blocks merge: numbers out of order)
    b = [u.text(plat) for u in usable if u.is_ace][:3]
    lines = ["10 remark = h", f"20 {b[0]}", "30 remark = other", f"40 {b[1]}", "50 remark = h", f"60 {b[2]}"]
    for order in (lines, lines[2:4] + lines[:2] + lines[4:], list(reversed(lines))):
        text = PR.header(plat, "A") + "\n" + "\n".join(" " + x for x in order)
        _acl_fix("Acl", text, dict(platform=plat, indent=" ", group_by="= "), ctx)
        _acl_fix("Acl", text, dict(platform=plat, indent=" "), ctx)
    ctx.sample("acl_misc", dict(platform=plat, names=ACL_NAMES))


def _acl_standard(unit, ctx):
    al = G.addr_alphabet(ctx.seed)
    entries = []
    for adr in al[:8]:
        sp = adr.spellings("ios")[0][0]
        entries.append(f"permit {sp}")
        entries.append(f"deny {sp} log")
    entries.append("remark std text")
    for n in (1, 2):
        for combo in product(range(len(entries)), repeat=n):
            for numbered in (False, True):
                lines = [(f"{10 * (k + 1)} " if numbered else "") + entries[i]
                         for k, i in enumerate(combo)]
                text = "ip access-list standard S-1\n" + "\n".join("  " + x for x in lines)
                o = _generic("Acl", text, dict(platform="ios", indent="  "), True, ctx)
                if o is not None:
                    ctx.out("acl_level")
                    if o.type != "standard":
                        ctx.viol("Acl:type_lost", dict(kind="generic", cls="Acl", input=text,
                                 kwargs=dict(platform="ios"), native=True), o.type, "standard")
                    _config_level("acls", o.line, dict(platform="ios", indent="  "), ctx)
    ctx.sample("acl_standard", entries[:3])
