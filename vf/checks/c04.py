"""C04 - deleting shadowed entries never changes any packet's permit/deny decision.

All ordered lists (with repetition: exact duplicates) of length <= L over a 14-item alphabet built
so that shadows and the text-based removal interact; each list flat and grouped by remark prefix,
unnumbered and resequenced.  Oracle per ACL: report == shading() just before, second call finds
nothing, result is a subsequence with only ACEs removed, every removed ACE is exactly covered by
an earlier same-action ACE of the original, first-match function unchanged, blocks unchanged.
"""
from __future__ import annotations

from itertools import product

from vf.gen import alpha as G
from vf.gen import programs as PR
from vf.refsem.packets import acl_equivalent, rule_subset

ID = "C04"
LEVEL = "exploration"
RULE = ("every ordered list with repetition up to the stated length over the item alphabet x "
        "{flat, grouped} x {unnumbered, numbered} (+ skip variants on flat lists); non-trivial = "
        "distinct (variant, list) from which delete_shadow removed at least one entry")
ASSUMPTIONS = [
    "packet model of DESIGN section 3; exact ACL equivalence by atom representatives (self-tested)",
    "an explicit deny and the implicit deny at the end are the same decision",
]
REQUIRED = ["removed_0", "removed_1", "removed_2plus", "duplicate_removed", "grouped_removed",
            "union_only_cover_kept", "standard_removed", "switched_removed",
            "item_switched_removed", "members_changed_ok"]
PREFIX = "= "
_KEEP = __import__("collections").deque(maxlen=256)  # unmodified, already audited ACLs (per process)


def items(seed):
    al = {a.label: a for a in G.addr_alphabet(seed)}
    gr = {a.group: a for a in G.group_alphabet(seed)}
    p, q, _ = G.SEED_PORTS[seed % len(G.SEED_PORTS)]
    none = G.PortX()
    X = G.AceX
    I = PR.Item  # noqa
    return [
        I("p_any", X("permit", 0, al["any"], none, al["any"], none)),
        I("p24", X("permit", 0, al["net24"], none, al["any"], none)),
        I("p30", X("permit", 0, al["net30"], none, al["any"], none)),
        I("p_host", X("permit", 0, al["host1"], none, al["any"], none)),
        I("d30", X("deny", 0, al["net30"], none, al["any"], none)),
        I("p_host_log", X("permit", 0, al["host1"], none, al["any"], none, (), ("log",))),
        # same text as the next item, other (wider) members: results must not be shared by text
        I("p_grp_wide", X("permit", 0, G.Addr("group:GH(wide)", al["net24"].cubes, "GH", (al["net24"],)),
                          none, al["any"], none)),
        I("p_grp_memberwise", X("permit", 0, gr["GH"], none, al["any"], none)),
        I("p_grp_union", X("permit", 0, gr["GU"], none, al["any"], none)),
        I("p_tcp_eq", X("permit", 6, al["net24"], none, al["any"], G.PortX("eq", (p,)))),
        I("p_tcp_range", X("permit", 6, al["host1"], none, al["any"], G.PortX("range", (p - 5, p + 5)))),
        I("d_tcp_eq", X("deny", 6, al["any"], none, al["any"], G.PortX("eq", (p,)))),
        I("p_tcp_neq2", X("permit", 6, al["any"], none, al["any"], G.PortX("neq", (p, p + 1)))),
        I("p_tcp_neq1", X("permit", 6, al["any"], none, al["any"], G.PortX("neq", (p,)))),
        I("p_grp_both", X("permit", 0, gr["GH"], none, gr["GE"], none)),
        I("p_host_to_host", X("permit", 0, al["host1"], none, al["host2"], none)),
        I("p_tcp_multi", X("permit", 6, al["any"], none, al["any"], G.PortX("eq", (p - 5, p + 5)))),
        I("d_proto200", X("deny", 200, al["any"], none, al["any"], none)),
        I("d_proto201", X("deny", 201, al["net24"], none, al["any"], none)),
        I("remark", None, "plain text"),
        I("head1", None, "= block1"),
        I("head2", None, "= block2"),
        # (appended, so that the index lists below stay valid) a non-contiguous source over host1/net30
        I("p_nc", X("permit", 0, al["nc_low_run_plus_bit"], none, al["any"], none)),
        I("d_nc", X("deny", 0, al["nc_low_run_plus_bit"], none, al["any"], none)),
    ]


SHADOW_ONLY = [0, 1, 2, 3, 4, 9, 11, 16, 17]
HEAVY = [12, 13]
STANDARD = [0, 1, 2, 3, 4, 5, 22, 23, 19]  # items a standard ACL can hold
SWITCHED = [0, 1, 3, 9, 11, 16, 17, 22]
STD_VARIANTS = [dict(grouped=False, numbered=n, skip=s, acl_type="standard")
                for n in (False, True) for s in (None, ["nc_wildcard"])]
SW_VARIANTS = [dict(grouped=False, numbered=False, skip=None, kwargs=kw)
               for kw in (dict(protocol_nr=True), dict(port_nr=True), dict(protocol_nr=True, port_nr=True))]
# single entries switched AFTER construction (their spelling then differs from the ACL's setting)
SW_VARIANTS += [dict(grouped=g, numbered=False, skip=None, item_switch=sw)
                for g in (False, True) for sw in ("port_nr", "protocol_nr")]
CORE = [0, 1, 2, 3, 4, 5, 7, 9, 11, 19, 20, 21]  # grouped/numbered variants at full length  # the items that can shadow each other (longer lists)


def _L(tier):
    """Full alphabet up to this length (both tiers); thorough adds length 4 over CORE and length 5
    over SHADOW_ONLY (the full alphabet at length 4 took ~2 h)."""
    return 3


VARIANTS = [dict(grouped=False, numbered=False, skip=None), dict(grouped=True, numbered=False, skip=None),
            dict(grouped=False, numbered=True, skip=None), dict(grouped=True, numbered=True, skip=None),
            dict(grouped=False, numbered=False, skip=["addrgroup"]),
            dict(grouped=False, numbered=False, skip=["nc_wildcard"])]


def describe(tier, seed):
    return dict(max_len_full_alphabet=_L(tier), len4_over_core_items=(tier == "thorough"),
                longer_over_shadow_items=4 if tier == "quick" else 5,
                alphabet=[it.text("ios") for it in items(seed)], variants=VARIANTS,
                platforms=["ios", "nxos(flat unnumbered, quick: length<=2)"])


DUP5 = [1, 2, 3, 9]  # length-5 lists with repeated lines (p24, p30, p_host, p_tcp_eq)
NFULL = 22  # the items that take part in the full-alphabet products
NC_SUB = [0, 1, 2, 3, 4, 22, 23]


def units(tier, seed):
    n = NFULL
    out = [dict(kind="short", first=a) for a in range(n)]
    out += [dict(kind="nc", first=a) for a in NC_SUB]
    for a in range(n):
        for b in range(n):
            out.append(dict(kind="lists", first=[a, b]))
    for a in SHADOW_ONLY:
        for b in SHADOW_ONLY:
            out.append(dict(kind="long", first=[a, b]))
    out.append(dict(kind="twins"))
    out.append(dict(kind="members_changed"))
    for a in DUP5:
        for b in DUP5:
            out.append(dict(kind="dup5", first=[a, b]))
    for a in STANDARD:
        for b in [None] + (STANDARD if tier == "thorough" else []):
            out.append(dict(kind="standard", first=a, second=b))
    for a in SWITCHED:
        for vi in range(len(SW_VARIANTS)):
            out.append(dict(kind="switched", first=a, variant=vi))
    if tier == "thorough":
        for a in CORE:
            for b in CORE:
                out.append(dict(kind="core4", first=[a, b]))
    return out


def run_unit(unit, ctx):
    its = items(ctx.seed)
    n = NFULL
    if unit["kind"] == "nc":
        # non-contiguous sources among plain ones, with and without the nc_wildcard skip
        for ln in (1, 2, 3):
            for rest in product(NC_SUB, repeat=ln - 1):
                for var in (VARIANTS[0], VARIANTS[5], VARIANTS[3]):
                    check_acl("ios", (unit["first"],) + rest, var, ctx)
        return
    if unit["kind"] == "short":
        for ln in (1, 2):
            for rest_ in product(range(n), repeat=ln - 1):
                idx = (unit["first"],) + rest_
                for var in VARIANTS:
                    check_acl("ios", idx, var, ctx)
                check_acl("nxos", idx, VARIANTS[0], ctx)
        return
    if unit["kind"] == "twins":
        # equal-text ACLs with different group members, one after the other IN ONE PROCESS
        # (wide members first): nothing may be shared between ACL objects by their text
        ctxi = [1, 2, 3, 4]
        for n_ctx in (1, 2):
            for combo in product(ctxi, repeat=n_ctx):
                for pos in range(n_ctx + 1):
                    for grp in (6, 7):  # p_grp_wide, then p_grp_memberwise
                        idx = combo[:pos] + (grp,) + combo[pos:]
                        check_acl("ios", idx, VARIANTS[0], ctx)
                        check_acl("ios", idx, VARIANTS[1], ctx)
        return
    if unit["kind"] == "standard":
        # standard ACLs (source only): every list of <= 3 (thorough: 4) standard items, flat / numbered, with
        # and without the nc_wildcard skip
        if unit["second"] is None:
            for ln in (1, 2, 3):
                for rest in product(STANDARD, repeat=ln - 1):
                    for var in STD_VARIANTS:
                        check_acl("ios", (unit["first"],) + rest, var, ctx)
        else:
            for rest in product(STANDARD, repeat=2):
                for var in STD_VARIANTS:
                    check_acl("ios", (unit["first"], unit["second"]) + rest, var, ctx)
        return
    if unit["kind"] == "switched":
        # the numeric switches change text only: lists of <= 3 items with protocol_nr / port_nr on
        for ln in (1, 2, 3):
            for rest in product(SWITCHED, repeat=ln - 1):
                check_acl("ios", (unit["first"],) + rest, SW_VARIANTS[unit["variant"]], ctx)
        return
    if unit["kind"] == "members_changed":
        _members_changed(ctx)
        return
    if unit["kind"] == "dup5":
        # five entries over four lines: every list has a repeated line, also on both sides of
        # another covering pair
        for rest in product(DUP5, repeat=3):
            check_acl("ios", tuple(unit["first"]) + rest, VARIANTS[0], ctx)
        return
    first = tuple(unit["first"])
    if unit["kind"] == "core4":
        for rest in product(CORE, repeat=2):
            for var in VARIANTS[:4]:
                check_acl("ios", first + rest, var, ctx)
        return
    if unit["kind"] == "lists":
        for ln in range(3, _L(ctx.tier) + 1):
            for rest in product(range(n), repeat=ln - 2):
                if ctx.tier == "quick" and any(i in HEAVY for i in first + rest):
                    continue  # quick: the neq items (65k-port lists, slow) only in lists <= 2
                core = all(i in CORE for i in first + rest)
                for vi, var in enumerate(VARIANTS[:4]):
                    if vi and not core and ctx.tier == "quick":
                        continue  # quick: the non-core items at full length only flat/unnumbered
                    if vi >= 2 and ctx.tier == "quick":
                        continue
                    check_acl("ios", first + rest, var, ctx)
                if ctx.tier == "thorough" and ln == 3:
                    check_acl("nxos", first + rest, VARIANTS[0], ctx)
                    check_acl("ios", first + rest, VARIANTS[4], ctx)
    else:
        ln = 4 if ctx.tier == "quick" else 5
        for rest in product(SHADOW_ONLY, repeat=ln - 2):
            check_acl("ios", first + rest, VARIANTS[0], ctx)
            if ctx.tier == "thorough" or sum(first + rest) % 4 == 0:
                check_acl("ios", first + rest, VARIANTS[2], ctx)  # numbered (quick: every 4th list)
    ctx.sample("acl", dict(idx=list(first + rest), lines=[its[i].text("ios") for i in first + rest]))


def _norm(text):
    return text


def replay(case, ctx):
    check_acl(case["platform"], tuple(case["idx"]), case["variant"], ctx)


def _members_changed(ctx):
    """One Acl object: shading() is asked, then the members of a referenced address group are
    changed IN PLACE (the ACL text stays the same), then delete_shadow() - the removal must follow
    the members the group has NOW."""
    from cisco_acl import Acl

    from vf.refsem.reader import Reader

    for plat in ("ios", "nxos"):
        ref = "object-group G" if plat == "ios" else "addrgroup G"
        head = PR.header(plat)
        wide, narrow = ("10.1.0.0 0.0.255.255", "host 10.1.2.3") if plat == "ios" else ("10.1.0.0/16", "host 10.1.2.3")
        other = "host 10.9.9.9"
        for side in ("src", "dst"):
            grp_line = f"permit ip {ref} any" if side == "src" else f"permit ip any {ref}"
            low = f"permit ip {narrow} any" if side == "src" else f"permit ip any {narrow}"
            for first, then in (([wide], [other]), ([other], [wide]), ([wide, other], [other]),
                                ([other], [other, wide]), ([wide], [narrow]), ([narrow], [other])):
                for edit in ("assign", "in_place", "member.line"):
                    for query in ("shading", "shadow_of", "none"):
                        for skip in (None, ["nc_wildcard"]):
                            ctx.ev()
                            case = dict(kind="members_changed", platform=plat, side=side, first=first, then=then,
                                        edit=edit, query=query, skip=skip)
                            try:
                                acl = Acl(f"{head}\n {grp_line}\n remark x\n {low}\n deny ip any any", platform=plat)
                                adr = getattr(acl.items[0], side + "addr")
                                adr.items = list(first)
                                if query != "none":
                                    getattr(acl, query)(skip)
                                if edit == "assign":
                                    adr.items = list(then)
                                elif edit == "in_place":
                                    fresh = type(adr)(ref, platform=plat, items=list(then)).items
                                    del adr.items[:]
                                    adr.items.extend(fresh)
                                else:
                                    if len(then) != len(adr.items):
                                        continue
                                    for m, t in zip(adr.items, then):
                                        m.line = t
                                report = acl.delete_shadow(skip)
                                lines = PR.flat_lines(acl)
                            except Exception as ex:  # noqa
                                ctx.viol("Acl.delete_shadow:members_changed:exception", case, repr(ex), "report")
                                continue
                            rd = Reader(plat)
                            covers = any(rd._addr(t.split())[0][0] == rd._addr(wide.split())[0][0] or t == narrow
                                         for t in then)
                            removed = low not in [PR.strip_seq(x) for x in lines]
                            if removed != covers or bool(report) != covers:
                                ctx.viol("Acl.delete_shadow:follows_members_of_an_earlier_query", case,
                                         dict(removed=removed, report=report),
                                         dict(removed=covers, members_now=then))
                            else:
                                ctx.out("members_changed_ok")
    ctx.sample("members_changed", dict(edits=["assign", "in_place", "member.line"]))


def PR_flat_objects(acl):
    out = []
    for o in acl.items:
        out.extend(o.items if hasattr(o, "items") and type(o).__name__ == "AceGroup" else [o])
    return out


def check_acl(platform, idx, var, ctx):
    its = items(ctx.seed)
    lst = [its[i] for i in idx]
    if not any(it.is_ace for it in lst) or any(it.is_ace and not it.acex.valid(platform) for it in lst):
        return
    labels_ = {it.label for it in lst}
    if "p_grp_wide" in labels_ and "p_grp_memberwise" in labels_:
        return  # one configuration defines a group name once: the two variants never meet in one ACL
    ctx.ev()
    acl_type = var.get("acl_type", "extended")
    case = dict(kind="acl", platform=platform, idx=list(idx), variant=var,
                lines=[it.text(platform, acl_type) for it in lst])
    try:
        acl = PR.build_acl(lst, platform, group_by=PREFIX if var["grouped"] else "",
                           numbered=var["numbered"], acl_type=acl_type, **var.get("kwargs", {}))
        if acl.type != acl_type:
            raise AssertionError(f"harness: ACL type {acl.type}")
        if var.get("item_switch"):
            from cisco_acl import Ace as _Ace

            k = 0
            for o in PR_flat_objects(acl):
                if isinstance(o, _Ace):
                    if k % 2 == 0:
                        setattr(o, var["item_switch"], True)
                    k += 1
    except Exception as ex:  # noqa
        ctx.viol("harness_or_build:exception", case, repr(ex), "ACL built")
        return
    skip = var["skip"]
    if any(it.label.startswith("p_grp") for it in lst):
        # "audit one ACL, clean another": an identical-text ACL (possibly with other group members)
        # is queried and then kept alive UNMODIFIED in this process, so that a result shared
        # between equal-text ACL objects shows up on a later case
        try:
            audit = PR.build_acl(lst, platform, group_by=PREFIX if var["grouped"] else "",
                                 numbered=var["numbered"])
            audit.shading(skip)
            _KEEP.append(audit)
        except Exception:  # noqa
            pass
    canon = (lambda lines: lines)
    if var.get("item_switch"):
        # an entry switched on its own spells numbers where the ACL spells names, and a
        # re-initialisation re-applies the ACL-wide setting: item lists are compared modulo
        # spelling (every line re-rendered with the default switches)
        from cisco_acl import Ace as _A, Remark as _R

        def canon(lines):
            return [(_R if PR.strip_seq(ln).startswith("remark") else _A)(ln, platform=platform).line
                    for ln in lines]
    before = canon(PR.flat_lines(acl))
    kinds_real = [PR.strip_seq(ln).split()[0] == "remark" for ln in before]
    remarks_real = [PR.strip_seq(ln) for ln in before if PR.strip_seq(ln).startswith("remark")]
    if kinds_real != [not it.is_ace for it in lst] or \
            remarks_real != [it.text(platform) for it in lst if not it.is_ace]:
        # grouping by a repeated heading merges blocks (drops the repeated heading, moves
        # entries): that is C15's subject; C04 needs the item list the ACL really holds
        heads = [it.remark for it in lst if it.remark.startswith(PREFIX)]
        if var["grouped"] and len(set(heads)) < len(heads):
            ctx.out("skipped_repeated_heading")
            return
        ctx.viol("harness:built_acl_differs_from_items", case, before,
                 [it.text(platform) for it in lst])
        return
    blocks_before = [(n_, canon(ls_)) for n_, ls_ in PR.blocks(acl)]
    text_before = acl.line
    try:
        r0 = acl.shading(skip)
        if acl.line != text_before:
            ctx.viol("Acl.shading:query_modifies_the_acl", case, acl.line, text_before)
            return
        r1 = acl.delete_shadow(skip)
        after = canon(PR.flat_lines(acl))
        text_after = acl.line
        blocks_after = [(n_, canon(ls_)) for n_, ls_ in PR.blocks(acl)]
        r2 = acl.delete_shadow(skip)
        after2 = canon(PR.flat_lines(acl))
    except Exception as ex:  # noqa
        ctx.viol("Acl.delete_shadow:exception", case, repr(ex), "report")
        return
    _ = text_before
    if r1 != r0:
        ctx.viol("Acl.delete_shadow:report_differs_from_shading", case, r1, r0)
    if r2 != {} or after2 != after:
        ctx.viol("Acl.delete_shadow:second_call_finds_something", case,
                 dict(report=r2, lines=after2), dict(report={}, lines=after))
    if "\n".join(after) not in text_after.replace("\n ", "\n") and after:
        pass
    # (2) subsequence with only ACE lines deleted
    survivors, k = [], 0
    for j, line in enumerate(before):
        if k < len(after) and after[k] == line:
            survivors.append(j)
            k += 1
    if k != len(after):
        ctx.viol("Acl.delete_shadow:result_not_a_subsequence", case, after, before)
        return
    deleted = [j for j in range(len(before)) if j not in survivors]
    if any(not lst[j].is_ace for j in deleted):
        ctx.viol("Acl.delete_shadow:remark_deleted", case, after, before)
        return
    # (3) every deleted entry is exactly covered by an earlier same-action entry of the original
    rules = [it.rule() if it.is_ace else None for it in lst]
    nc_skip = bool(skip and "nc_wildcard" in skip)
    for j in deleted:
        covered = any(rules[i] is not None and rules[i].action == rules[j].action
                      and rule_subset(rules[j], rules[i]) for i in range(j))
        if not covered:
            ctx.viol("Acl.delete_shadow:removed_entry_not_covered", dict(case, removed=before[j]),
                     after, "entry kept")
    # (4) first-match function unchanged
    ra = [r for r in rules if r is not None]
    rb = [rules[j] for j in survivors if rules[j] is not None]
    cex = acl_equivalent(ra, rb)
    if cex is not None:
        ctx.viol("Acl.delete_shadow:decision_changed", dict(case, packet=list(cex)), after, before)
    # (5) grouping of the survivors untouched
    if var["grouped"]:
        want_blocks = []
        gone = {}
        for j in deleted:
            gone[before[j]] = gone.get(before[j], 0) + 1
        # remove the deleted lines from the LAST occurrences backwards is ambiguous with duplicates:
        # compare block names and the multiset/order of lines instead
        names_before = [b[0] for b in blocks_before if any(ln in after for ln in b[1])]
        names_after = [b[0] for b in blocks_after]
        flat_after = [ln for b in blocks_after for ln in b[1]]
        if flat_after != after or names_after != names_before:
            ctx.viol("Acl.delete_shadow:blocks_changed", case, blocks_after, blocks_before)
        _ = want_blocks
    # statistics / anti-vacuity
    n = len(deleted)
    ctx.out("removed_0" if n == 0 else "removed_1" if n == 1 else "removed_2plus")
    if n:
        ctx.nt((platform, tuple(idx), str(var)))
        if acl_type == "standard":
            ctx.out("standard_removed")
        if var.get("kwargs"):
            ctx.out("switched_removed")
        if var.get("item_switch"):
            ctx.out("item_switched_removed")
        if any(before.count(before[j]) > 1 for j in deleted):
            ctx.out("duplicate_removed")
        if var["grouped"]:
            ctx.out("grouped_removed")
    labels = [it.label for it in lst]
    if "p_grp_union" in labels and "p24" in labels and \
            labels.index("p_grp_union") < labels.index("p24") and "p_any" not in labels \
            and labels.count("p24") == 1 and (len(lst) - 1 - labels[::-1].index("p24")) in survivors:
        ctx.out("union_only_cover_kept")
    _ = nc_skip
