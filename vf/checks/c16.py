"""C16 - copy()/data() rebuild an equal, independent object; identifiers and notes are stable.

(A) for every exported class over a reduced C06 domain: copy() and Class(**data()) are equal,
    render the same text, export the same data; independence is decided STRUCTURALLY: the sets of
    mutable objects reachable from source and copy are disjoint (except the user's note), and as a
    cross-check every reachable mutable container of the copy (and of the source) is mutated and the
    other side must not change.
(B) explicit-state exploration of in-place transformations (platform, type, switches, resequence,
    sort, reverse, group, ungroup) to depth D from seed ACLs: uuid and note of every object that
    existed before and was not replaced by a port split are unchanged.
"""
from __future__ import annotations

from copy import deepcopy
from itertools import product

from vf.gen import alpha as G
from vf.gen import programs as PR

ID = "C16"
LEVEL = "model_checking"
RULE = ("(A) one case per (class, input, configuration) of the domain; non-trivial = objects that own "
        "at least one nested object or list (aliasing is possible); (B) every sequence of the stated "
        "depth over the transformation alphabet from each seed ACL, a state is the fingerprint "
        "(text, structure) after the sequence, every transition checks identifier/note stability of "
        "all tracked objects; traces = complete sequences replayed on a fresh real ACL")
ASSUMPTIONS = [
    "mutable = list/dict/set and instances of cisco_acl classes; IPv4Network/IPv4Address/SwVersion/str/"
    "int are treated as immutable values",
    "AceGroup blocks created or dissolved by group()/ungroup() themselves are not tracked across that call",
    "an entry replaced by a port split (multi-operand eq on conversion to NX-OS / ungroup_ports) is "
    "exempt, as C16 states",
]
REQUIRED = ["copy_equal_independent", "rebuild_equal_independent", "mutation_isolated",
            "ids_stable_step", "group_members_tracked", "export_reusable"]
KF_FIELD = "C16:Ace:field_objects_rebuilt_without_uuid_note"
KF_ANY = "C16:Address:ios_prefix_0.0.0.0/0_copy_renders_any"
FIELD_NAMES = {"protocol", "srcaddr", "srcport", "dstaddr", "dstport", "option"}


def _depth(tier):
    return 2 if tier == "quick" else 3


OPS = ["platform=ios", "platform=nxos", "type=extended", "port_nr=True", "port_nr=False",
       "protocol_nr=True", "protocol_nr=False", "resequence", "sort", "reverse", "group", "ungroup"]


def describe(tier, seed):
    return dict(history_depth=_depth(tier), operations=OPS, seeds=len(seed_acls(seed)),
                classes=["Port", "Protocol", "Option", "Wildcard", "Address", "AddressAg", "AddrGroup",
                         "Remark", "Ace", "AceGroup", "Acl"])


def units(tier, seed):
    out = [dict(kind="small", platform=p) for p in G.PLATFORMS]
    out += [dict(kind="ncwb", platform=p) for p in G.PLATFORMS]
    out += [dict(kind="ace", platform=p, base=b) for p in G.PLATFORMS for b in range(3)]
    out += [dict(kind="acl", platform=p, first=f) for p in G.PLATFORMS for f in range(12)]
    for si in range(len(seed_acls(seed))):
        out.append(dict(kind="hist", seed_acl=si, first=None))
        for a in range(len(OPS)):
            out.append(dict(kind="hist", seed_acl=si, first=a))
    return out


def run_unit(unit, ctx):
    k = unit["kind"]
    if k == "small":
        _small(ctx, unit["platform"])
    elif k == "ncwb":
        _ncwb(ctx, unit["platform"])
    elif k == "ace":
        _aces(ctx, unit["platform"], unit["base"])
    elif k == "acl":
        _acls(ctx, unit["platform"], unit["first"])
    else:
        _hist(unit, ctx)


def replay(case, ctx):
    if case["kind"] == "copy":
        _copy_case(case["cls"], case["input"], case["kwargs"], ctx, members=case.get("members"))
    elif case["kind"] == "history":
        _run_history(case["seed_acl"], case["ops"], ctx)


# ------------------------------------------------------------------------------- (A) copy / data


def _is_lib(o):
    return type(o).__module__.startswith("cisco_acl")


def reach(root):
    """id -> (path, object) of every mutable object reachable from root (note excluded)."""
    out = {}
    stack = [("", root)]
    while stack:
        path, o = stack.pop()
        if isinstance(o, (list, dict, set)) or _is_lib(o):
            if id(o) in out:
                continue
            out[id(o)] = (path, o)
        if isinstance(o, (list, tuple)):
            for i, v in enumerate(o):
                stack.append((f"{path}[{i}]", v))
        elif isinstance(o, dict):
            for k, v in o.items():
                stack.append((f"{path}[{k!r}]", v))
        elif isinstance(o, set):
            pass
        elif _is_lib(o):
            for k, v in vars(o).items():
                if k == "note":
                    continue
                stack.append((f"{path}.{k}", v))
    return out


def _snapshot(o):
    return (o.line, repr(o.data()))


def _independent(src, cpy, label, case, ctx):
    ra, rb = reach(src), reach(cpy)
    shared = [(ra[i][0], rb[i][0]) for i in ra if i in rb]
    if shared:
        ctx.viol(f"{label}:shares_mutable_state", case, shared[:5], "disjoint object graphs")
        return False
    # cross-check by mutation: poke every mutable container of one side, the other must not change
    for (a, b, side) in ((src, cpy, "copy"), (cpy, src, "source")):
        before = _snapshot(a)
        for _i, (path, o) in list(reach(b).items()):
            if isinstance(o, list):
                o.append("SENTINEL")
                changed = _snapshot_safe(a) != before
                o.pop()
            elif isinstance(o, dict):
                o["SENTINEL"] = 1
                changed = _snapshot_safe(a) != before
                del o["SENTINEL"]
            elif isinstance(o, set):
                o.add("SENTINEL")
                changed = _snapshot_safe(a) != before
                o.discard("SENTINEL")
            else:
                continue
            if changed:
                ctx.viol(f"{label}:mutating_{side}_changes_the_other", dict(case, path=path),
                         "changed", "unchanged")
                return False
        ctx.out("mutation_isolated")
    return True


def _snapshot_safe(o):
    try:
        return _snapshot(o)
    except Exception as ex:  # noqa
        return ("error", repr(ex))


def _copy_case(cls, text, kwargs, ctx, members=None, prepare=None):
    import cisco_acl

    X = getattr(cisco_acl, cls)
    ctx.ev()
    case = dict(kind="copy", cls=cls, input=text, kwargs=kwargs, members=members)
    note = ["user", "note"]
    try:
        obj = X(text, note=note, **kwargs)
        if members:
            for path, lines in members:
                tgt = obj
                for attr in path:
                    tgt = tgt[attr] if isinstance(attr, int) else getattr(tgt, attr)
                tgt.items = list(lines)
        if prepare:
            prepare(obj)
    except Exception as ex:  # noqa
        ctx.viol("harness:build", case, repr(ex), "built")
        return
    if len(reach(obj)) > 1:
        ctx.nt((cls, text, str(sorted(kwargs.items())), str(members)))
    all_ok = True
    for how, make in (("copy", lambda: obj.copy()), ("rebuild", lambda: X(**obj.data()))):
        try:
            other = make()
        except Exception as ex:  # noqa
            ctx.viol(f"{cls}.{how}:exception", case, repr(ex), "equal object")
            return
        bad = {}
        if type(obj).__eq__ is not object.__eq__ and not (other == obj):
            bad["not_equal"] = (other.line, obj.line)
        if other.line != obj.line:
            bad["text"] = (other.line, obj.line)
        if other.data() != obj.data():
            d0, d1 = obj.data(), other.data()
            bad["data"] = ({k: repr(d1.get(k))[:160] for k in d0 if d0.get(k) != d1.get(k)},
                           {k: repr(d0.get(k))[:160] for k in d0 if d0.get(k) != d1.get(k)})
        if other.note is not note:
            bad["note"] = (repr(other.note), "the user's note object")
        if other.uuid == obj.uuid:
            bad["uuid_shared"] = (other.uuid, "a fresh identifier")
        if members and not bad:
            # members attached to nested objects are data too: same lines at the same places
            for path, _lines in members:
                a, b = obj, other
                for attr in path:
                    a = a[attr] if isinstance(attr, int) else getattr(a, attr)
                    b = b[attr] if isinstance(attr, int) else getattr(b, attr)
                if [m.line for m in b.items] != [m.line for m in a.items]:
                    bad["members"] = ([m.line for m in b.items], [m.line for m in a.items])
        if bad:
            kf = None
            if cls == "Address" and text == "0.0.0.0/0" and kwargs.get("platform") == "ios" and \
                    set(bad) == {"data", "text"} and other.line == "any":
                kf = KF_ANY
            ctx.viol(f"{cls}.{how}:" + "+".join(sorted(bad)) + (":ios_prefix_any" if kf else ""), case,
                     {k: v[0] for k, v in bad.items()}, {k: v[1] for k, v in bad.items()}, kf=kf)
            all_ok = False
            continue
        if _independent(obj, other, f"{cls}.{how}", case, ctx):
            ctx.out("copy_equal_independent" if how == "copy" else "rebuild_equal_independent")
    # one exported dictionary used twice: building from it must neither consume it nor tie the
    # two objects (or the dictionary) together
    if not all_ok:
        return
    try:
        exported = obj.data()
        snap = deepcopy(exported)
        first = X(**exported)
        if exported != snap:
            # the constructors normalise nested dictionaries of the export in place (they add the
            # container's type / platform to item dictionaries); C16 does not forbid that, what
            # matters is that the export can be used again
            ctx.out("export_normalised_in_place")
        second = X(**exported)
    except Exception as ex:  # noqa
        ctx.viol(f"{cls}.rebuild_twice:exception", case, repr(ex), "two equal objects")
        return
    if second.line != obj.line or second.data() != obj.data():
        ctx.viol(f"{cls}.rebuild:second_object_from_the_same_data_differs", case, second.line, obj.line)
        return
    if members:
        for path, _lines in members:
            a, b = obj, second
            for attr in path:
                a = a[attr] if isinstance(attr, int) else getattr(a, attr)
                b = b[attr] if isinstance(attr, int) else getattr(b, attr)
            if [m.line for m in b.items] != [m.line for m in a.items]:
                ctx.viol(f"{cls}.rebuild:second_object_from_the_same_data_lost_members", case,
                         [m.line for m in b.items], [m.line for m in a.items])
                return
    r1, r2, rd_ = reach(first), reach(second), reach(exported)
    shared = [(r1[i][0], "second" + r2[i][0]) for i in r1 if i in r2] + \
             [(r1[i][0], "data" + rd_[i][0]) for i in r1 if i in rd_]
    if shared:
        ctx.viol(f"{cls}.rebuild:objects_built_from_one_export_share_state", case, shared[:5],
                 "disjoint object graphs")
        return
    ctx.out("export_reusable")


def _small(ctx, only):
    seed = ctx.seed
    for plat in (only,):
        for px in G.port_alphabet(seed, plat, small=True):
            if px.op:
                for text, _n in px.spellings(6, plat, ""):
                    _copy_case("Port", text, dict(platform=plat, protocol="tcp"), ctx)
        for p in ("ip", "tcp", "47", "255", "ahp"):
            _copy_case("Protocol", p, dict(platform=plat, protocol_nr=True), ctx)
            _copy_case("Protocol", p, dict(platform=plat, has_port=True), ctx)
        for o in ("", "ack", "ack syn log", "established log-input"):
            _copy_case("Option", o, dict(platform=plat), ctx)
        for adr in G.addr_alphabet(seed, groups=True):
            for text, _n in adr.spellings(plat):
                mem = [((), [m.spellings(plat)[0][0] for m in adr.members])] if adr.group else None
                _copy_case("Address", text, dict(platform=plat), ctx, members=mem)
        from vf.checks.c02 import _ag_spellings

        for adr in G.addr_alphabet(seed):
            for text in _ag_spellings(adr, plat):
                _copy_case("AddressAg", text, dict(platform=plat), ctx)
                if plat == "nxos":
                    _copy_case("AddressAg", "10 " + text, dict(platform=plat), ctx)
        head = "object-group network G" if plat == "ios" else "object-group ip address G"
        mem = ["host 10.0.0.1", "10.0.0.0 255.255.255.0" if plat == "ios" else "20 10.0.0.0/24"]
        for n in (1, 2):
            _copy_case("AddrGroup", head + "\n" + "\n".join(" " + m for m in mem[:n]),
                       dict(platform=plat, indent=" "), ctx)
        if plat == "ios":
            # a nested group reference that carries its own members (not part of the text)
            nested = ["host 10.5.5.5", "10.6.0.0 255.255.0.0"]
            _copy_case("AddressAg", "group-object B", dict(platform=plat), ctx, members=[((), nested)])
            _copy_case("AddrGroup", head + "\n host 10.0.0.1\n group-object B\n 10.7.0.0 255.255.0.0",
                       dict(platform=plat), ctx, members=[(("items", 1), nested)])
        for r in ("remark text", "10 remark 10 permit ip any any"):
            _copy_case("Remark", r, dict(platform=plat), ctx)
    for w in ("10.0.0.0 0.0.0.3", "10.0.0.5 0.0.1.3", "0.0.0.0 255.255.255.255"):
        if only == "nxos":
            break
        _copy_case("Wildcard", w, dict(max_ncwb=5), ctx)
    ctx.sample("small", "Port/Protocol/Option/Wildcard/Address/AddressAg/AddrGroup/Remark")


def _ncwb(ctx, plat):
    """Every class that carries the non-contiguous-bits limit, built with a non-default limit
    (below and above the default 16): the copy keeps the limit everywhere and stays buildable."""
    head = PR.header(plat)
    for limit, wild in ((4, "0.0.5.0"), (4, "0.0.0.255"), (20, "1.255.255.0"), (0, "0.0.0.3")):
        adr = f"10.0.0.0 {wild}" if wild != "1.255.255.0" else f"0.0.0.0 {wild}"
        kw = dict(platform=plat, max_ncwb=limit)
        _copy_case("Wildcard", adr, dict(max_ncwb=limit), ctx)
        _copy_case("Address", adr, kw, ctx)
        _copy_case("Ace", f"permit tcp {adr} any eq 80", kw, ctx)
        _copy_case("Ace", f"permit ip any {adr}", kw, ctx)
        body = [f"remark = a", f"permit ip {adr} any", "remark = b", f"deny tcp any {adr} eq 22"]
        _copy_case("AceGroup", "\n".join(body), kw, ctx)
        _copy_case("AceGroup", "\n".join(body[1:2]), kw, ctx)
        text = head + "\n" + "\n".join(" " + b for b in body)
        _copy_case("Acl", text, kw, ctx)
        _copy_case("Acl", text, dict(kw, group_by="= "), ctx)
        _copy_case("Acl", text, dict(kw, group_by="= "), ctx, prepare=_append_loose)
        if plat == "nxos":
            _copy_case("AddressAg", "10 " + adr, kw, ctx)
            _copy_case("AddrGroup", f"object-group ip address G\n 10 {adr}\n 20 host 10.0.0.1", kw, ctx)
        else:
            _copy_case("AddrGroup", "object-group network G\n host 10.0.0.1\n 10.0.0.0 255.255.255.0", kw,
                       ctx)
    # a member OBJECT created under another limit than its group (it keeps its own limit)
    from cisco_acl import Address as _Adr

    ref = "object-group G" if plat == "ios" else "addrgroup G"
    for glimit, mlimit, wild in ((16, 4, "0.0.5.0"), (4, 16, "0.0.85.0"), (16, 20, "1.255.255.0"), (0, 16, "0.0.5.0")):
        adr = f"10.0.0.0 {wild}" if wild != "1.255.255.0" else f"0.0.0.0 {wild}"

        def attach(obj, side=None, adr=adr, mlimit=mlimit):
            tgt = obj if side is None else getattr(obj, side)
            tgt.items = [_Adr(adr, platform=plat, max_ncwb=mlimit), "host 10.0.0.9"]

        kw = dict(platform=plat, max_ncwb=glimit)
        _copy_case("Address", ref, kw, ctx, prepare=attach)
        _copy_case("Ace", f"permit ip {ref} any", kw, ctx, prepare=lambda o: attach(o, "srcaddr"))
        _copy_case("Acl", PR.header(plat) + f"\n permit ip any {ref}\n deny ip any any", kw, ctx,
                   prepare=lambda o: attach(o.items[0], "dstaddr"))
    ctx.sample("ncwb", "non-default max_ncwb 0/4/20 at every level")


def _aces(ctx, only, bi):
    for plat in (only,):
        alph = G.field_alphabets(ctx.seed, plat, groups=True, small=True)
        for base in (G.bases(ctx.seed)[bi],):
            for f in G.FIELDS:
                for v in alph[f]:
                    kw = {x: getattr(base, x) for x in G.FIELDS}
                    kw[f] = v
                    acex = G.AceX(**kw)
                    if not acex.valid(plat):
                        continue
                    mem = []
                    for side, adr in (("srcaddr", acex.src), ("dstaddr", acex.dst)):
                        if adr.group:
                            mem.append(((side,), [m.spellings(plat)[0][0] for m in adr.members]))
                    for cfg in (dict(platform=plat), dict(platform=plat, port_nr=True, protocol_nr=True)):
                        _copy_case("Ace", acex.text(plat), cfg, ctx, members=mem or None)
        if bi == 0 and only == "ios":
            _copy_case("Ace", "permit host 10.0.0.1 log", dict(platform="ios"), ctx)
    ctx.sample("ace", "deviation <= 1 ACE space x 2 switch settings")


def _acl_texts(seed, plat):
    from vf.checks.c02 import struct_items

    its = [it for it in struct_items(seed) if not it.is_ace or it.acex.valid(plat)]
    return its


def _append_loose(acl):
    from cisco_acl import Ace

    acl.resequence(10, 10)
    for blk in acl.items:
        blk.note = "block-note"
    acl.append(Ace("deny ip any any", platform=acl.platform))


def _acls(ctx, only, first):
    for plat in (only,):
        its = _acl_texts(ctx.seed, plat)
        if first >= len(its):
            return
        for n in (1, 2, 3):
            for rest in product(range(len(its)), repeat=n - 1):
                combo = (first,) + rest
                if n == 3 and (combo[0] + combo[1] + combo[2]) % 5:
                    continue  # every fifth triple
                lst = [its[i] for i in combo]
                body = "\n".join(" " + it.text(plat) for it in lst)
                mem = []
                for k, it in enumerate(lst):
                    if it.is_ace:
                        for side, adr in (("srcaddr", it.acex.src), ("dstaddr", it.acex.dst)):
                            if adr.group:
                                mem.append((("items", k, side),
                                            [m.spellings(plat)[0][0] for m in adr.members]))
                _copy_case("Acl", PR.header(plat) + "\n" + body,
                           dict(platform=plat, indent=" ", input=["interface E1"], output="interface E2"),
                           ctx, members=mem or None)
                if not mem:
                    _copy_case("Acl", PR.header(plat) + "\n" + body, dict(platform=plat, group_by="= "),
                               ctx, prepare=lambda o: o.resequence(10, 10))
                    # mixed: blocks plus a loose entry appended afterwards
                    _copy_case("Acl", PR.header(plat) + "\n" + body, dict(platform=plat, group_by="= "),
                               ctx, prepare=_append_loose)
                    _copy_case("AceGroup", "\n".join(it.text(plat) for it in lst), dict(platform=plat),
                               ctx)
    ctx.sample("acl", "item lists <= 3 over the structural alphabet, flat/grouped+numbered")


# --------------------------------------------------------------------------- (B) identifier stability


def seed_acls(seed):
    w = G.window(seed)
    from vf.refsem import sets as S

    ip = S.int2ip
    return [
        ("ios", "", [f"remark = one", f"permit tcp host {ip(w + 1)} any eq 80 443",
                     "deny udp any object-group GRP eq 53 log", "remark = two", "permit icmp any any",
                     f"permit ip {ip(w)} 0.0.0.3 any", "deny tcp any range 1000 2000 any gt 1023",
                     "permit tcp any neq 25 any lt 1024"]),
        ("nxos", "= ", ["10 remark = one", f"20 permit tcp {ip(w)}/24 any eq 22",
                        "30 deny ip addrgroup GRP any", "40 remark = two", "50 permit ip any any",
                        "60 permit udp any any range 67 68"]),
        ("ios", "= ", ["remark lead", "permit 47 any any", "remark = only", "permit ip any any",
                       "permit ip any any"]),
        # grouped, then a loose entry is appended: a mixed item list
        ("ios", "= +loose", ["remark = a", "permit tcp any any eq 22", "remark = b", "permit icmp any any"]),
    ]


def _mk_seed(si, ctx):
    from cisco_acl import Ace, Acl

    plat, group_by, lines = seed_acls(ctx.seed)[si]
    acl = Acl(PR.header(plat) + "\n" + "\n".join(" " + x for x in lines), platform=plat, note="acl-note")
    n = 0
    for o in acl.items:
        o.note = f"item-note-{n}"
        n += 1
        if isinstance(o, Ace):
            for side in ("srcaddr", "dstaddr"):
                adr = getattr(o, side)
                adr.note = f"{side}-note"
                if adr.addrgroup:
                    adr.items = ["host 10.9.9.1", "10.9.8.0 0.0.0.255"] if plat == "ios" else \
                        ["host 10.9.9.1", "10.9.8.0/24"]
                    for m in adr.items:
                        m.note = "member-note"
            o.srcport.note = "sport-note"
            o.option.note = "option-note"
            o.protocol.note = "proto-note"
    if group_by:
        acl.group(group_by.split("+")[0])
        for g in acl.items:
            g.note = "block-note"
        if group_by.endswith("+loose"):
            from cisco_acl import Ace as _Ace

            loose = _Ace("deny ip any any", platform=plat, note="loose-note")
            acl.append(loose)
    return acl


def _tracked(acl):
    """{key: (uuid, note)} for every object C16 speaks about; key is stable across operations."""
    from cisco_acl import Ace, AceGroup

    out = {"acl": (acl.uuid, acl.note)}

    def walk(items, prefix):
        for o in items:
            if isinstance(o, AceGroup):
                out[f"block:{o.uuid}"] = (o.uuid, o.note)
                walk(o.items, prefix)
                continue
            out[f"item:{o.uuid}"] = (o.uuid, o.note)
            if isinstance(o, Ace):
                for f in ("protocol", "srcaddr", "srcport", "dstaddr", "dstport", "option"):
                    fo = getattr(o, f)
                    out[f"field:{o.uuid}:{f}"] = (fo.uuid, fo.note)
                    if f.endswith("addr"):
                        for i, m in enumerate(fo.items):
                            out[f"member:{o.uuid}:{f}:{i}"] = (m.uuid, m.note)

    walk(acl.items, "")
    return out


def _multi(o):
    from cisco_acl import Ace

    return isinstance(o, Ace) and any(p.operator in ("eq", "neq") and len(p.items) > 1
                                      for p in (o.srcport, o.dstport))


def _apply(acl, op):
    name, _, arg = op.partition("=")
    if name == "platform":
        acl.platform = arg
    elif name == "type":
        acl.type = arg
    elif name == "port_nr":
        acl.port_nr = arg == "True"
    elif name == "protocol_nr":
        acl.protocol_nr = arg == "True"
    elif name == "resequence":
        acl.resequence(10, 10)
    elif name == "sort":
        acl.sort()
    elif name == "reverse":
        acl.reverse()
    elif name == "group":
        acl.group("= ")
    elif name == "ungroup":
        acl.ungroup()


def _run_history(si, ops, ctx):
    from cisco_acl import AceGroup

    case = dict(kind="history", seed_acl=si, ops=list(ops))
    acl = _mk_seed(si, ctx)
    for step, op in enumerate(ops):
        before = _tracked(acl)
        split_ids = set()
        if op == "platform=nxos":
            def collect(items):
                for o in items:
                    if isinstance(o, AceGroup):
                        collect(o.items)
                    elif _multi(o):
                        split_ids.add(o.uuid)
            collect(acl.items)
        try:
            _apply(acl, op)
        except (ValueError, TypeError):
            ctx.out("refused")
            return
        except Exception as ex:  # noqa
            ctx.viol("history:unexpected_exception", dict(case, step=step), repr(ex), "ok")
            return
        ctx.trans()
        ctx.state((acl.line, tuple(len(o.items) if isinstance(o, AceGroup) else 0 for o in acl.items)))
        after = _tracked(acl)
        lost_items, changed_fields, lost_blocks = [], [], []
        for key, (uuid, note) in before.items():
            kind = key.split(":")[0]
            owner = key.split(":")[1] if ":" in key else ""
            if owner in split_ids:
                continue
            if kind == "block":
                if op in ("group", "ungroup"):
                    continue
                if key not in after or after[key] != (uuid, note):
                    lost_blocks.append(key)
            elif kind in ("acl", "item"):
                if key not in after or after[key] != (uuid, note):
                    lost_items.append((key, after.get(key)))
            else:
                if f"item:{owner}" not in after:
                    continue  # owner itself is reported above
                if key not in after or after[key] != (uuid, note):
                    changed_fields.append((key.split(":", 2)[2] if kind == "member" else key.split(":")[2],
                                           kind))
        if lost_items:
            ctx.viol(f"{op.split('=')[0]}:uuid_or_note_of_item_changed", dict(case, step=step),
                     lost_items[:4], "unchanged")
            return
        if lost_blocks:
            ctx.viol(f"{op.split('=')[0]}:uuid_or_note_of_block_changed", dict(case, step=step),
                     lost_blocks[:4], "unchanged")
            return
        if changed_fields:
            # (former known finding K04, fixed as F20: the key no longer matches anything)
            only_fields = all(kind == "field" and name in FIELD_NAMES for name, kind in changed_fields)
            known_op = op.split("=")[0] in ("platform", "type", "port_nr", "protocol_nr")
            kf = KF_FIELD if only_fields and known_op else None
            what = "field_object" if only_fields else "group_member"
            ctx.viol(f"{op.split('=')[0]}:uuid_or_note_of_{what}_changed", dict(case, step=step),
                     sorted(set(changed_fields))[:8], "unchanged", kf=kf)
            if kf is None:
                return
        ctx.out("ids_stable_step")
        if any(k.startswith("member:") for k in before):
            ctx.out("group_members_tracked")
    ctx.trace()


def _hist(unit, ctx):
    si = unit["seed_acl"]
    d = _depth(ctx.tier)
    if unit["first"] is None:
        for a in OPS:
            ctx.ev()
            ctx.nt_count()
            _run_history(si, [a], ctx)
        return
    for n in range(2, d + 1):
        for rest in product(OPS, repeat=n - 1):
            ctx.ev()
            ctx.nt_count()
            _run_history(si, [OPS[unit["first"]], *rest], ctx)
    ctx.sample("history", dict(seed_acl=si, ops=[OPS[unit["first"]], *rest]))
