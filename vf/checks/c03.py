"""C03 - shadow detection is sound: a reported shadow is really covered.

All ordered pairs (top, bottom) deviating from a covering base pair in <= d of the 16 field
positions (d = 2 quick, 3 thorough), every position over its complete alphabet (address groups
with 0/1/2/3 members incl. non-contiguous members and a union-only cover, every port operator incl.
expressions that denote nothing, flags, logs), both platforms, all five skip arguments.
Oracle: library True => same action and exact packet-set containment; skip monotonicity.
"""
from __future__ import annotations

from vf.gen import pairs as P
from vf.refsem import sets as S
from vf.refsem.packets import rule_subset
from vf.refsem.reader import Reader

ID = "C03"
LEVEL = "exploration"
RULE = ("ordered pairs enumerated completely within the deviation bound; every pair is evaluated "
        "under all 5 skip arguments; non-trivial = distinct (platform, top, bottom) for which the "
        "library answered 'shadowed' under at least one skip argument")
ASSUMPTIONS = [
    "packet model of DESIGN section 3; a group denotes the union of its members, an empty group nothing",
    "exact containment by cube cover (self-tested against brute force)",
]
REQUIRED = ["answered_true", "answered_false", "group_involved_true", "empty_port_expr_pair",
            "nc_involved_true", "acl_level_true", "standard_pair", "switched_pair", "mutated_pair"]
GROUPS = True


def _d(tier):
    return 2 if tier == "quick" else 3


def describe(tier, seed):
    al = P.alphabets(seed, "ios", GROUPS)
    return dict(deviation_bound=_d(tier), positions=16, skip_arguments=P.SKIPS,
                note="three deviating positions range over the reduced alphabets (small=True)",
                alphabet_sizes={k: len(v) for k, v in al.items()},
                base_pairs=[(t.text("ios"), b.text("ios")) for t, b in P.base_pairs(seed)])


def units(tier, seed):
    out = []
    for plat in ("ios", "nxos"):
        for bi in range(2):
            for posset in P.position_sets(_d(tier)):
                out.append(dict(platform=plat, base=bi, pos=list(posset)))
    # simplest first: fewer deviating positions first
    out.sort(key=lambda u: len(u["pos"]))
    for plat in ("ios", "nxos"):
        out.append(dict(kind="acl_level", platform=plat, pos=[]))
    out += extra_units()
    return out


SWITCHES = [dict(protocol_nr=True), dict(port_nr=True), dict(protocol_nr=True, port_nr=True)]


MUT_BASES = [("permit tcp object-group G any range 20 80", {"src": ["10.0.0.0 0.255.255.255"]}),
             ("permit tcp host 10.0.0.1 any eq 80 443", {}),
             ("permit udp 10.0.0.0 0.0.1.3 gt 1000 object-group H", {"dst": ["host 10.0.0.9", "10.2.0.0 0.0.255.255"]})]
MUTATIONS = [
    [("srcaddr.line", "host 10.0.0.1")], [("srcaddr.prefix", "10.0.0.0/30")],
    [("srcaddr.items", ["host 10.0.0.5"])], [("srcaddr.items", ["host 10.0.0.5"]), ("srcaddr.line", "any")],
    [("dstaddr.line", "10.2.3.0 0.0.0.255")], [("dstaddr.items", ["10.2.3.0 0.0.0.255"])],
    [("dstport.ports", [20, 21, 80])], [("dstport.sport", "20-21,80")], [("dstport.items", [443])],
    [("dstport.line", "gt 1000")], [("dstport.line", "")], [("srcport.line", "eq 5 6")],
    [("srcport.ports", [5, 6, 7])],
    [("option.line", "ack")], [("option.line", "log")], [("sequence", 7)],
    [("line", "permit ip any any")], [("line", "deny tcp any any eq 80")],
    [("srcaddr.line", "host 10.0.0.1"), ("dstport.ports", [80])],
    # queries whose RESULT the caller edits: the entry itself must not change
    [("call_edit", "srcaddr.ipnets")], [("call_edit", "dstaddr.ipnets")], [("call_edit", "srcaddr.prefixes")],
    [("call_edit", "dstport.ports")], [("call_edit", "srcport.items")], [("call_edit", "dstaddr.items")],
    # REFUSED assignments (the documented error is raised and swallowed by the caller): the entry
    # is still what it renders
    [("refused", ("dstport.line", "neq bogus"))], [("refused", ("dstport.line", "lt 5 6"))],
    [("refused", ("dstport.line", "eq"))], [("refused", ("srcport.line", "neq 1 x"))],
    [("refused", ("srcaddr.line", "10.0.0.0 0.0.0.256"))], [("refused", ("dstaddr.line", "host"))],
    [("refused", ("dstport.items", [70000]))], [("refused", ("dstport.sport", "5-x"))],
    [("refused", ("line", "permit tcp any"))], [("refused", ("srcaddr.prefix", "10.0.0.0/33"))],
]
MUT_PARTNERS = ["permit tcp any any", "permit ip any any", "permit tcp 10.0.0.0 0.255.255.255 any",
                "permit tcp host 10.0.0.1 any eq 80", "permit tcp host 10.0.0.2 any range 20 80",
                "permit tcp any any range 20 80", "permit tcp any any eq 20 21 80", "permit tcp any any eq 443",
                "permit tcp host 10.0.0.5 any gt 1000", "permit tcp any any ack",
                "permit udp any any", "permit udp 10.0.0.0 0.0.0.3 gt 1000 10.2.3.0 0.0.0.255",
                "permit udp any eq 5 6 any", "deny tcp any any eq 80", "permit udp host 10.0.0.1 gt 2000 host 10.0.0.9",
                "permit udp 10.0.0.0 0.0.0.3 any", "permit udp 10.0.1.0 0.0.0.3 any"]


def _mutate(bi, mi):
    """A real Ace modified AFTER construction through the setters of its field objects; returns
    (ace, description) where the description is what the object now renders (+ current members)."""
    from cisco_acl import Ace

    text, members = MUT_BASES[bi]
    ace = Ace(text, platform="ios")
    for side, lines in members.items():
        getattr(ace, side + "addr").items = list(lines)
    for path, val in MUTATIONS[mi]:
        obj = ace
        *heads, last = path.split(".")
        for h in heads:
            obj = getattr(obj, h)
        if type(obj).__name__ == "Port" and not obj.protocol:
            # a Port born from an empty expression carries no protocol and never renders (a quirk
            # pinned by the repository's tests, see C08): giving it ports later is out of domain
            raise ValueError("empty port expression")
        if path == "refused":
            sub, bad = val
            tgt = ace
            *hs, attr = sub.split(".")
            for h in hs:
                tgt = getattr(tgt, h)
            try:
                setattr(tgt, attr, list(bad) if isinstance(bad, list) else bad)
            except Exception:  # noqa - which error a setter raises for garbage is not C03's subject
                pass
            continue
        if path == "call_edit":
            tgt = ace
            *hs, meth = val.split(".")
            for h in hs:
                tgt = getattr(tgt, h)
            res = getattr(tgt, meth)
            res = res() if callable(res) else res
            if isinstance(res, list) and len(res) > 1:
                res.pop()
            continue
        setattr(obj, last, list(val) if isinstance(val, list) else val)
    mem = {}
    for side in ("src", "dst"):
        adr = getattr(ace, side + "addr")
        if adr.addrgroup:
            mem[side] = [m.line for m in adr.items]
    return ace, ace.line, mem


def _mutated(bi, ctx, exact_if_plain):
    """The answer must follow what the entry IS NOW (its rendered text and current members)."""
    from cisco_acl import Ace

    for mi in range(len(MUTATIONS)):
        try:
            _a, text, mem = _mutate(bi, mi)
        except (ValueError, TypeError):
            ctx.out("mutation_refused")
            continue
        for pi, ptext in enumerate(MUT_PARTNERS):
            for role in ("top", "bottom"):
                ace, text, mem = _mutate(bi, mi)  # fresh objects for every pair
                partner = Ace(ptext, platform="ios")
                if role == "top":
                    desc = dict(platform="ios", top=text, bottom=ptext, top_members=mem, bottom_members={})
                    top, bot = ace, partner
                else:
                    desc = dict(platform="ios", top=ptext, bottom=text, top_members={}, bottom_members=mem)
                    top, bot = partner, ace
                try:
                    rt, rb = rules_from_description(desc)
                except Exception:  # noqa - the mutation list can produce a state no Cisco text
                    # describes (a tcp flag on a udp entry): outside the property's domain
                    ctx.out("mutation_outside_grammar")
                    break
                plain = not mem and rt.sport and rt.dport and rb.sport and rb.dport
                check_pair(top, bot, rt, rb,
                           lambda: dict(kind="mutated", base=bi, mutation=mi, partner=pi, role=role,
                                        steps=[list(map(str, m)) for m in MUTATIONS[mi]], **desc),
                           ctx, exact=bool(exact_if_plain and plain))
                ctx.out("mutated_pair")
    ctx.sample("mutated", dict(base=MUT_BASES[bi][0]))


def extra_units():
    """Units shared with C11: standard (source-only) entries, and the pair space of <= 1 deviation
    (+ protocol x protocol) with the numeric switches on."""
    out = [dict(kind="standard", pos=[], chunk=c) for c in range(8)]
    out += [dict(kind="mutated", pos=[], base=b) for b in range(len(MUT_BASES))]
    for plat in ("ios", "nxos"):
        for bi in range(2):
            for posset in P.position_sets(1):
                out.append(dict(kind="switched", platform=plat, base=bi, pos=list(posset)))
            out.append(dict(kind="switched", platform=plat, base=bi, pos=[1, 9]))  # both protocols
    return out


def run_extra(unit, ctx, groups, exact, accept=lambda top, bot: True):
    if unit["kind"] == "standard":
        _standard(unit["chunk"], ctx, exact)
        return True
    if unit["kind"] == "mutated":
        _mutated(unit["base"], ctx, exact)
        return True
    if unit["kind"] == "switched":
        plat = unit["platform"]
        alph = P.alphabets(ctx.seed, plat, groups)
        base = P.base_pairs(ctx.seed)[unit["base"]]
        for top, bot in P.pairs_for(base, tuple(unit["pos"]), alph):
            if not (top.valid(plat) and bot.valid(plat) and accept(top, bot)):
                continue
            for cfg in SWITCHES:
                check_pair(P.real_ace(top, plat, **cfg), P.real_ace(bot, plat, **cfg), P.rule_of(top),
                           P.rule_of(bot), lambda: P.describe_pair(top, bot, plat, **cfg), ctx,
                           exact=exact)
                ctx.out("switched_pair")
        return True
    return False


def _standard(chunk, ctx, exact):
    """Standard ACL entries (source only, IOS): every ordered pair over action x address x log."""
    from cisco_acl import Acl

    from vf.gen import alpha as G

    none = G.PortX()
    anyaddr = G.addr_alphabet(ctx.seed)[0]
    entries = [G.AceX(act, 0, a, none, anyaddr, none, (), logs) for act in ("permit", "deny")
               for a in G.addr_alphabet(ctx.seed) for logs in ((), ("log",))]

    def text(x):
        return f"{x.action} {x.src.spellings('ios')[0][0]}" + (" log" if x.logs else "")

    def real(x):
        ace = Acl("ip access-list standard S\n " + text(x), platform="ios").items[0]
        if ace.type != "standard":
            raise AssertionError("harness: entry is not standard")
        return ace

    reals = [real(x) for x in entries]
    for i, top in enumerate(entries):
        if i % 8 != chunk:
            continue
        for j, bot in enumerate(entries):
            check_pair(reals[i], reals[j], P.rule_of(top), P.rule_of(bot),
                       lambda: dict(platform="ios", top=text(top), bottom=text(bot), standard=True),
                       ctx, exact=exact)
            ctx.out("standard_pair")
    ctx.sample("standard", dict(top=text(top), bottom=text(bot)))


def run_unit(unit, ctx):
    if unit.get("kind") == "acl_level":
        _acl_level(unit["platform"], ctx)
        return
    if unit.get("kind") and run_extra(unit, ctx, GROUPS, exact=False):
        return
    plat = unit["platform"]
    alph = P.alphabets(ctx.seed, plat, GROUPS, small=len(unit["pos"]) >= 3)
    base = P.base_pairs(ctx.seed)[unit["base"]]
    n = 0
    for top, bot in P.pairs_for(base, tuple(unit["pos"]), alph):
        if not (top.valid(plat) and bot.valid(plat)):
            continue
        n += 1
        check_pair(P.real_ace(top, plat), P.real_ace(bot, plat), P.rule_of(top), P.rule_of(bot),
                   lambda: P.describe_pair(top, bot, plat), ctx, exact=False)
    if n:
        ctx.sample("pair", P.describe_pair(top, bot, plat))


def _acl_level(platform, ctx):
    """The ACL-level reports are 'the library reports a shadow' too: every ordered pair of a small
    entry set with address groups on BOTH sides (different members), through Acl.shading() /
    shadow_of() on the ACL itself, on its copy, and after a platform round trip."""
    from vf.gen import alpha as G
    from vf.gen import programs as PR

    al = {a.label: a for a in G.addr_alphabet(ctx.seed)}
    gr = {a.group: a for a in G.group_alphabet(ctx.seed)}
    none = G.PortX()
    X = G.AceX
    entries = [
        X("permit", 0, gr["GH"], none, gr["GE"], none), X("permit", 0, gr["GE"], none, gr["GH"], none),
        X("permit", 0, gr["G3"], none, gr["GH"], none), X("permit", 0, gr["GH"], none, al["any"], none),
        X("permit", 0, al["host1"], none, al["host2"], none),
        X("permit", 0, al["host1"], none, al["host_ext"], none),
        X("permit", 0, al["host_ext"], none, al["host1"], none),
        X("permit", 0, al["net30"], none, al["any"], none), X("permit", 0, al["any"], none, al["net24"], none),
        X("deny", 0, al["host1"], none, al["host2"], none),
    ]
    other = "nxos" if platform == "ios" else "ios"
    for top in entries:
        for bot in entries:
            if top is bot:
                continue
            for how in ("direct", "copy", "platform_roundtrip", "port_nr"):
                ctx.ev()
                acl = PR.build_acl([PR.Item("t", top), PR.Item("b", bot)], platform)
                case = dict(kind="acl_level", platform=platform, how=how, top=top.text(platform),
                            bottom=bot.text(platform))
                try:
                    if how == "copy":
                        acl = acl.copy()
                    elif how == "platform_roundtrip":
                        acl.platform = other
                        acl.platform = platform
                    elif how == "port_nr":
                        acl.port_nr = True
                    rep = acl.shading()
                    lst = acl.shadow_of()
                except (ValueError, TypeError):
                    ctx.out("refused")
                    continue
                except Exception as ex:  # noqa
                    ctx.viol("Acl.shading:unexpected_exception", case, repr(ex), "report")
                    continue
                rt, rb = P.rule_of(top), P.rule_of(bot)
                covered = rt.action == rb.action and rule_subset(rb, rt)
                if (rep or lst) and not covered:
                    ctx.viol(f"Acl.shading:unsound:{how}", case, dict(report=rep, shadow_of=lst),
                             "no shadow (bottom is not contained in top)")
                elif rep:
                    ctx.out("acl_level_true")
                    ctx.nt((platform, how, case["top"], case["bottom"]))
    ctx.sample("acl_level", dict(platform=platform))


def replay(case, ctx):
    if case.get("kind") == "mutated":
        _mutated(case["base"], ctx, case.get("exact", False))
        return
    if case.get("kind") == "acl_level":
        _acl_level(case["platform"], ctx)
        return
    top, bot = P.build_from_description(case)
    rt, rb = rules_from_description(case)
    check_pair(top, bot, rt, rb, lambda: case, ctx, exact=case.get("exact", False))


def rules_from_description(desc):
    """Meaning of the two texts through the independent reader (members resolved)."""
    plat = desc["platform"]
    out = []
    for which in ("top", "bottom"):
        text = desc[which]
        mem = desc.get(f"{which}_members") or {}
        rd = Reader(plat)
        rule = rd.read_line(text, "standard") if desc.get("standard") else rd.read_line(text)
        groups = {}
        for side, name in (("src", rule.src_group), ("dst", rule.dst_group)):
            if name:
                cubes = []
                for m in mem.get(side, []):
                    c, _ = Reader(plat)._addr(m.split())
                    cubes.extend(c)
                groups[(side, name)] = tuple(cubes)
        if groups:
            from dataclasses import replace

            rule = replace(rule, src=groups.get(("src", rule.src_group), rule.src),
                           dst=groups.get(("dst", rule.dst_group), rule.dst))
        out.append(rule)
    return out


def _nc(rule):
    return any(w & (w + 1) for cubes in (rule.src, rule.dst) for _, w in cubes)


def _members_of(ace):
    return tuple(tuple(m.line for m in getattr(ace, side).items) for side in ("srcaddr", "dstaddr"))


def _case(describe, **extra):
    d = dict(describe())
    d.setdefault("kind", "pair")
    d.update(extra)
    return d


def check_pair(top, bot, rt, rb, describe, ctx, exact):
    """Evaluate one ordered pair under all skip arguments.

    :param exact: also require the equivalence of C11 (group-free, non-empty port sets).
    """
    covered = rb.action == rt.action and rule_subset(rb, rt)
    answers = []
    snap = (top.line, bot.line, _members_of(top), _members_of(bot))
    for skip in P.SKIPS:
        ctx.ev()
        try:
            ans = bot.shadow_of(top, skip=skip)
        except (ValueError, TypeError):
            ans = "refused"
            ctx.out("refused")
        except Exception as ex:  # noqa
            ctx.viol("Ace.shadow_of:unexpected_exception", _case(describe, skip=skip),
                     repr(ex), "bool or documented error")
            return
        answers.append(ans)
        if ans is True and not covered:
            why = "different action" if rb.action != rt.action else "bottom not contained in top"
            ctx.viol(f"Ace.shadow_of:unsound:{_which_field(rt, rb)}",
                     _case(describe, skip=skip), True, f"False ({why})",
                     kf=_kf_unsound(rt, rb))
    # a query: neither operand may be modified by it
    if (top.line, bot.line, _members_of(top), _members_of(bot)) != snap:
        ctx.viol("Ace.shadow_of:operand_modified", _case(describe),
                 (top.line, bot.line, _members_of(top), _members_of(bot)), snap)
        return
    # monotonicity: adding skip options can only turn True into False
    none, ag, nc, both1, both2 = answers
    for small, big, name in ((none, ag, "addrgroup"), (none, nc, "nc_wildcard"),
                             (ag, both1, "addrgroup+nc"), (nc, both1, "nc+addrgroup"),
                             (ag, both2, "addrgroup+nc(rev)"), (nc, both2, "nc+addrgroup(rev)")):
        if big is True and small is False:
            ctx.viol("Ace.shadow_of:skip_not_monotone", _case(describe),
                     dict(zip(map(str, P.SKIPS), answers)),
                     f"adding skip options ({name}) must not turn False into True")
            break
    if both1 != both2:
        ctx.viol("Ace.shadow_of:skip_order_matters", _case(describe),
                 dict(zip(map(str, P.SKIPS), answers)), "same answer for both orders")
    if exact:
        nc_inv = _nc(rt) or _nc(rb)
        for skip, ans in zip(P.SKIPS, answers):
            want = covered and not (skip and "nc_wildcard" in skip and nc_inv)
            if ans != want:
                ctx.viol("Ace.shadow_of:not_exact" + ("" if want else ":false_positive"),
                         _case(describe, exact=True, skip=skip), ans, want)
                break
    if True in answers:
        d = describe()
        ctx.nt((d["platform"], d["top"], d["bottom"], str(d.get("top_members")),
                str(d.get("bottom_members"))))
        ctx.out("answered_true")
        if rt.src_group or rt.dst_group or rb.src_group or rb.dst_group:
            ctx.out("group_involved_true")
        if _nc(rt) or _nc(rb):
            ctx.out("nc_involved_true")
    else:
        ctx.out("answered_false")
    if not rt.sport or not rt.dport or not rb.sport or not rb.dport:
        ctx.out("empty_port_expr_pair")


def _which_field(rt, rb):
    if rb.action != rt.action:
        return "action"
    if rb.pmask & ~rt.pmask:
        return "protocol"
    if rb.sport & ~rt.sport or rb.dport & ~rt.dport:
        return "ports"
    if rb.flags & ~rt.flags:
        return "flags"
    if not S.addr_subset(rb.src, rt.src) or not S.addr_subset(rb.dst, rt.dst):
        return "address"
    return "other"


def _kf_unsound(rt, rb):
    return None
