"""C10 - resequencing numbers every line start, start+step, ... and changes nothing else.

State space: (tree shape, numbering) of an Acl / AceGroup / AddrGroup; transitions: resequence(start,
step) for the complete boundary product of arguments; explored to depth 2 (a second call from every
state reached by the first, including states left behind by a refused call).  An arithmetic model is
stepped next to the real object.
"""
from __future__ import annotations

from itertools import product

from vf.gen import programs as PR

ID = "C10"
LEVEL = "model_checking"
RULE = ("every tree shape with <= N leaves (explicit AceGroup items and group-by-prefix "
        "construction) x 4 previous numberings x 9 start values x 8 step values x platform, then a "
        "second call from the reached state; a state is (shape, numbers of all leaves), a transition "
        "one resequence call on the real object compared with the arithmetic model; non-trivial = "
        "transitions on shapes that contain a group or that hit an error condition")
ASSUMPTIONS = ["model: leaves in rendered order get s + i*d; start 0 clears; the three documented "
               "error conditions raise ValueError; nothing is claimed about numbers left behind by a "
               "refused call"]
REQUIRED = ["renumbered_ok", "cleared_ok", "refused_start", "refused_step", "refused_overflow",
            "nested_group_shape", "second_call_ok", "addrgroup_ok", "depth2_shape"]
MAX = 4294967295
STARTS = [-1, 0, 1, 2, 10, MAX - 5, MAX - 1, MAX, MAX + 1]
STEPS = [-1, 0, 1, 2, 10, 2 ** 31, MAX, MAX + 1]
# "+same": every leaf is the same line (equal objects), numbered as stated
PREV = ["none", "tens", "descending", "duplicates", "descending+same", "tens+same"]
SECOND = [(10, 10), (0, 5), (MAX - 3, 1), (5, 3)]


def _N(tier):
    return 4 if tier == "quick" else 5


def shapes(max_leaves):
    """All sequences of parts; part = 0 (single top-level item) or k in 1..3 (group of k leaves)."""
    out = []

    def rec(prefix, used):
        if prefix:
            out.append(tuple(prefix))
        for part in (0, 1, 2, 3):
            size = max(part, 1)
            if used + size <= max_leaves:
                rec(prefix + [part], used + size)

    rec([], 0)
    return out


def nested_shapes(max_leaves):
    """Depth-2 shapes, built with the list methods: top = [pre?] + [outer] + [post?], outer =
    a leaves + inner group of b leaves + c leaves.  Encoded as (pre, a, b, c, post)."""
    out = []
    for pre, a, b, c, post in product((0, 1), (0, 1, 2), (1, 2), (0, 1), (0, 1)):
        if pre + a + b + c + post <= max_leaves + 1:
            out.append((pre, a, b, c, post))
    return out


def describe(tier, seed):
    return dict(max_leaves=_N(tier), shapes=len(shapes(_N(tier))), starts=STARTS, steps=STEPS,
                previous_numberings=PREV, second_calls=SECOND)


def units(tier, seed):
    out = []
    shp = shapes(_N(tier))
    for plat in ("ios", "nxos"):
        for i in range(len(shp)):
            out.append(dict(kind="acl", platform=plat, shape=i))
        for i in range(len(nested_shapes(_N(tier)))):
            out.append(dict(kind="nested", platform=plat, shape=i))
        out.append(dict(kind="acegroup", platform=plat))
        out.append(dict(kind="addrgroup", platform=plat))
    out.sort(key=lambda u: (u["kind"] != "acl", u.get("shape", 0)))
    return out


def run_unit(unit, ctx):
    if unit["kind"] == "acl":
        shape = shapes(_N(ctx.tier))[unit["shape"]]
        for mode in ("explicit", "prefix", "mixed"):
            if mode == "prefix" and 0 in shape:
                continue
            if mode == "mixed" and sum(1 for p in shape if p) < 2:
                continue
            for prev in PREV:
                for start, step in product(STARTS, STEPS):
                    _run(unit["platform"], "Acl", shape, mode, prev, [(start, step)], ctx)
                for first in ((10, 10), (MAX, 1), (3, 0)):
                    for second in SECOND:
                        _run(unit["platform"], "Acl", shape, mode, prev, [first, second], ctx)
        ctx.sample("acl", dict(shape=list(shape), platform=unit["platform"]))
    elif unit["kind"] == "nested":
        shape = nested_shapes(_N(ctx.tier))[unit["shape"]]
        for prev in PREV[:4]:
            for start, step in product(STARTS, STEPS):
                _run(unit["platform"], "Acl", shape, "nested", prev, [(start, step)], ctx)
            _run(unit["platform"], "Acl", shape, "nested", prev, [(10, 10), (5, 3)], ctx)
            if shape[0] == 0 and shape[4] == 0:
                _run(unit["platform"], "AceGroup", shape, "nested", prev, [(10, 10), (5, 3)], ctx)
                _run(unit["platform"], "AceGroup", shape, "nested", prev, [(MAX - 2, 1)], ctx)
    elif unit["kind"] == "acegroup":
        for n in range(1, _N(ctx.tier) + 1):
            for prev in PREV:
                for start, step in product(STARTS, STEPS):
                    _run(unit["platform"], "AceGroup", (0,) * n, "explicit", prev, [(start, step)], ctx)
                _run(unit["platform"], "AceGroup", (0,) * n, "explicit", prev, [(10, 10), (0, 1)], ctx)
    else:
        for n in range(1, 5):
            for prev in PREV:
                for start, step in product(STARTS, STEPS):
                    _run(unit["platform"], "AddrGroup", (0,) * n, "explicit", prev, [(start, step)], ctx)
                _run(unit["platform"], "AddrGroup", (0,) * n, "explicit", prev, [(10, 10), (5, 3)], ctx)


def replay(case, ctx):
    _run(case["platform"], case["cls"], tuple(case["shape"]), case["mode"], case["prev"],
         [tuple(c) for c in case["calls"]], ctx)


# ------------------------------------------------------------------------------------------------

ACES = ["permit ip any any", "deny tcp host 10.0.0.1 any eq 80", "permit udp any any eq 53",
        "permit icmp any any", "deny ip any any log"]


def _prev_numbers(prev, n):
    if prev == "none":
        return [0] * n
    if prev == "tens":
        return [10 * (i + 1) for i in range(n)]
    if prev == "descending":
        return [10 * (n - i) for i in range(n)]
    return [7] * n


def _build(platform, cls, shape, mode, prev_):
    """Return (object, list of leaf objects in rendered order)."""
    from cisco_acl import AceGroup, Acl, AddrGroup

    prev, same = (prev_[:-5], True) if prev_.endswith("+same") else (prev_, False)
    aces = ["permit ip any any"] * 5 if same else ACES
    n = sum(max(p, 1) for p in shape)
    nums = _prev_numbers(prev, n)

    def pre(i):
        return f"{nums[i]} " if nums[i] else ""

    if mode == "nested":
        p0, a, b, c, p1 = shape
        n = p0 + a + b + c + p1
        nums = _prev_numbers(prev, n)
        lines = [pre(i) + aces[i % len(aces)] for i in range(n)]
        inner = AceGroup(items=lines[p0 + a:p0 + a + b], platform=platform)
        outer = AceGroup(items=lines[p0:p0 + a] + lines[p0 + a + b:p0 + a + b + c] or [lines[p0 + a]],
                         platform=platform)
        if not (a or c):
            outer.pop(0)  # the outer group holds the inner group only
        outer.insert(a, inner)  # depth 2 comes from the list methods
        if cls == "AceGroup":
            return outer, _leaves(outer)
        obj = Acl(name="A", platform=platform, items=lines[:p0])
        obj.append(outer)
        from cisco_acl import Ace

        for ln in lines[n - p1:] if p1 else []:
            obj.append(Ace(ln, platform=platform))
        return obj, _leaves(obj)
    if cls == "AddrGroup":
        head = "object-group network G" if platform == "ios" else "object-group ip address G"
        lines = [f"{pre(i)}host 10.0.0.{1 if same else i + 1}" for i in range(n)]
        obj = AddrGroup(head + "\n" + "\n".join(" " + x for x in lines), platform=platform)
        for m, num in zip(obj.items, nums):
            m.sequence = num
        return obj, list(obj.items)
    k = 0
    top = []
    flat_lines = []
    for gi, part in enumerate(shape):
        if part == 0:
            line = pre(k) + (f"remark r{k}" if k % 3 == 2 and not same else aces[k % len(aces)])
            top.append(line)
            flat_lines.append(line)
            k += 1
        else:
            glines = []
            for j in range(part):
                if j == 0 and mode == "prefix":
                    line = pre(k) + f"remark = head{gi}"
                elif j == 0 and k % 2 == 0 and not same:
                    line = pre(k) + f"remark g{gi}"
                else:
                    line = pre(k) + aces[k % len(aces)]
                glines.append(line)
                flat_lines.append(line)
                k += 1
            top.append(glines)
    if cls == "AceGroup":
        obj = AceGroup("\n".join(flat_lines), platform=platform)
    elif mode == "mixed":
        # the item list is a MIXTURE: strings, AceGroup objects, and for every second group the
        # dictionary exported from the previous group (same identifier, another object)
        items, prev = [], None
        for p in top:
            if isinstance(p, list):
                grp = AceGroup(items=list(p), platform=platform)
                if prev is not None and len(prev.items) == len(p):
                    d = prev.data(uuid=True)
                    d["line"] = grp.line
                    d["items"] = [dict(x.data(uuid=True)) for x in grp.items]
                    items.append(d)
                else:
                    items.append(grp)
                prev = grp
            else:
                items.append(p)
        obj = Acl(name="A", platform=platform, items=items)
    elif mode == "prefix":
        obj = Acl(PR.header(platform) + "\n" + "\n".join(" " + x for x in flat_lines),
                  platform=platform, group_by="= ")
    else:
        items = [AceGroup(items=list(p), platform=platform) if isinstance(p, list) else p for p in top]
        obj = Acl(name="A", platform=platform, items=items)
    return obj, _leaves(obj)


def _leaves(obj):
    from cisco_acl import AceGroup

    out = []
    for o in obj.items:
        if isinstance(o, AceGroup):
            out.extend(_leaves(o))
        else:
            out.append(o)
    return out


def _depth(obj):
    from cisco_acl import AceGroup

    return max([1 + _depth(o) for o in obj.items if isinstance(o, AceGroup)] or [0])


def _strip(line):
    toks = line.split()
    if toks and toks[0].isdigit():
        toks = toks[1:]
    return " ".join(toks)


def _structure(obj):
    from cisco_acl import AceGroup

    return [len(o.items) if isinstance(o, AceGroup) else 0 for o in getattr(obj, "items")]


def _run(platform, cls, shape, mode, prev, calls, ctx):
    case = dict(kind="reseq", platform=platform, cls=cls, shape=list(shape), mode=mode, prev=prev,
                calls=[list(c) for c in calls])
    try:
        obj, leaves = _build(platform, cls, shape, mode, prev)
    except Exception as ex:  # noqa
        ctx.viol("harness:build", case, repr(ex), "built")
        return
    n = len(leaves)
    n_want = sum(shape) if mode == "nested" else sum(max(p, 1) for p in shape)
    if n != n_want or (mode == "nested" and _depth(obj) < (2 if cls == "Acl" else 1)):
        ctx.viol("harness:leaf_count_or_depth", case, n, n_want)
        return
    if mode == "nested":
        ctx.out("depth2_shape")
    content = [_strip(o.line) for o in leaves]
    struct = _structure(obj) if cls != "AddrGroup" else None
    model = [o.sequence for o in leaves]
    if any(p > 0 for p in shape):
        ctx.out("nested_group_shape")
    for ci, (start, step) in enumerate(calls):
        ctx.ev()
        ctx.trans()
        ctx.state((cls, mode, tuple(shape), tuple(model)))
        if not 0 <= start <= MAX:
            expect = "refused_start"
        elif start and step < 1:
            expect = "refused_step"
        elif start and start + (n - 1) * step > MAX:
            expect = "refused_overflow"
        else:
            expect = "ok"
        try:
            ret = obj.resequence(start, step)
            outcome = "ok"
        except ValueError:
            outcome = "refused"
        except Exception as ex:  # noqa
            ctx.viol(f"{cls}.resequence:unexpected_exception", dict(case, call=ci), repr(ex),
                     "int or ValueError")
            return
        leaves_now = _leaves(obj) if cls != "AddrGroup" else list(obj.items)
        nums = [o.sequence for o in leaves_now]
        if any(p > 0 for p in shape) or expect != "ok":
            ctx.nt_count()
        if expect != "ok":
            if outcome == "ok":
                ctx.viol(f"{cls}.resequence:{expect.replace('refused', 'accepted_bad')}",
                         dict(case, call=ci), dict(returned=ret, numbers=nums), "ValueError")
                return
            ctx.out(expect)
            model = nums  # nothing is claimed about the numbers a refused call leaves behind
            if [_strip(o.line) for o in leaves_now] != content:
                ctx.viol(f"{cls}.resequence:content_changed_by_refused_call", dict(case, call=ci),
                         [o.line for o in leaves_now], content)
                return
            continue
        if outcome != "ok":
            ctx.viol(f"{cls}.resequence:valid_arguments_refused", dict(case, call=ci), "ValueError",
                     "renumbered")
            return
        want = [start + i * step for i in range(n)] if start else [0] * n
        want_ret = want[-1] if start else 0
        bad = {}
        if nums != want:
            bad["numbers"] = (nums, want)
        if ret != want_ret:
            bad["returned"] = (ret, want_ret)
        if any(x > MAX for x in nums):
            bad["above_max"] = (max(nums), MAX)
        if [_strip(o.line) for o in leaves_now] != content:
            bad["content"] = ([o.line for o in leaves_now], content)
        if len(leaves_now) != n or (struct is not None and _structure(obj) != struct):
            bad["structure"] = (_structure(obj) if struct is not None else len(leaves_now), struct)
        # the rendered text carries exactly those numbers
        if cls != "AddrGroup":
            text_nums = []
            for ln in obj.line.split("\n")[(1 if cls == "Acl" else 0):]:
                t = ln.split()
                text_nums.append(int(t[0]) if t and t[0].isdigit() else 0)
            if text_nums != want:
                bad["rendered_numbers"] = (text_nums, want)
        if bad:
            ctx.viol(f"{cls}.resequence:" + "+".join(sorted(bad)), dict(case, call=ci),
                     {k: v[0] for k, v in bad.items()}, {k: v[1] for k, v in bad.items()})
            return
        model = nums
        ctx.out("renumbered_ok" if start else "cleared_ok")
        if ci:
            ctx.out("second_call_ok")
        if cls == "AddrGroup":
            ctx.out("addrgroup_ok")
    ctx.trace()
