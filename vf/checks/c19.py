"""C19 - splitting multi-port entries into single-port entries keeps the meaning.

Every IOS entry whose source and/or destination port uses an operator of {none, eq, neq, range,
gt} with 1..3 operands (one case: 10), alone and at every position of every context list, through
Ace.ungroup_ports, AceGroup.ungroup_ports, Acl.ungroup_ports (flat and grouped) and
Acl.platform = "nxos".
"""
from __future__ import annotations

from itertools import product

from vf.gen import alpha as G
from vf.gen import programs as PR
from vf.refsem import sets as S
from vf.refsem.packets import Remark, Rule, acl_equivalent
from vf.refsem.reader import Reader, Reject

ID = "C19"
LEVEL = "exploration"
RULE = ("every (source expr, destination expr) pair of the expression alphabet x context list x "
        "position x call site; non-trivial = distinct (site, ACL) in which at least one entry was "
        "replaced by more than one entry")
ASSUMPTIONS = ["packet model of DESIGN section 3", "IOS reader / NX-OS reader (self-tested)",
               "known finding K02 (multi-operand neq is split per operand, pinned by the repository's "
               "own tests) is matched by its exact wrong result only"]
REQUIRED = ["split_done", "no_split_needed", "site_Ace", "site_AceGroup", "site_Acl_flat",
            "site_Acl_grouped", "site_platform_nxos", "site_Acl_mixed_head", "site_Acl_mixed_tail", "loose_first_checked",
            "numbered_lines"]
KF_NEQ = "C19:ungroup_ports:multi_operand_neq_split_per_operand"
SITES = ("Ace", "AceGroup", "Acl_flat", "Acl_grouped", "Acl_mixed_head", "Acl_mixed_tail",
         "Acl_loose_first", "platform_nxos")


def exprs(seed):
    a, b, c = G.SEED_PORTS[seed % len(G.SEED_PORTS)]
    return [G.PortX(), G.PortX("eq", (a,)), G.PortX("eq", (a, b)), G.PortX("eq", (c, a, b)),
            G.PortX("neq", (a,)), G.PortX("neq", (a, b)), G.PortX("range", (a, b)),
            G.PortX("gt", (b,)), G.PortX("eq", (0, a)),
            G.PortX("eq", (1, 2, 3, 4, 5, 6, 7, 8, 9, 10))]


def context(seed):
    al = {x.label: x for x in G.addr_alphabet(seed)}
    none = G.PortX()
    return [
        PR.Item("remark", None, "plain text"),
        PR.Item("p_any", G.AceX("permit", 0, al["any"], none, al["any"], none)),
        PR.Item("d_single", G.AceX("deny", 17, al["host1"], G.PortX("eq", (53,)), al["net24"], none)),
        PR.Item("p_multi", G.AceX("permit", 17, al["any"], G.PortX("eq", (1, 2)), al["any"], none)),
        PR.Item("head", None, "= block"),
        # identical to one piece of the split of the entry under test (source eq a b, no dst port)
        entry(seed, exprs(seed)[1], exprs(seed)[0]),
    ]


def entry(seed, sx, dx, grouped=False):
    al = {x.label: x for x in G.addr_alphabet(seed)}
    if grouped:  # address groups with DIFFERENT members on the two sides
        gr = {x.group: x for x in G.group_alphabet(seed)}
        return PR.Item("under_test_groups", G.AceX("permit", 6, gr["GH"], sx, gr["GE"], dx, ("ack",),
                                                   ("log",), 0))
    return PR.Item("under_test", G.AceX("permit", 6, al["net24"], sx, al["host_ext"], dx, ("ack",),
                                        ("log",), 0))


def _ctx_len(tier):
    return 1 if tier == "quick" else 2


def describe(tier, seed):
    return dict(expressions=[f"{e.op} {' '.join(map(str, e.operands))}".strip() or "(none)"
                             for e in exprs(seed)],
                context=[c.text("ios") for c in context(seed)], context_list_max=_ctx_len(tier),
                sites=SITES)


def units(tier, seed):
    ex = exprs(seed)
    out = []
    light = (0, 1, 2)
    for i, a in enumerate(ex):
        for j, b in enumerate(ex):
            if max(len(a.operands), 1) * max(len(b.operands), 1) > 20:
                continue  # the 10-operand list is paired with <= 2 operands on the other side
            if tier == "quick" and ((a.op == "neq" and len(a.operands) > 1 and j not in light) or
                                    (b.op == "neq" and len(b.operands) > 1 and i not in light)):
                continue  # quick: a multi-operand neq is paired with none / eq a / eq a b only
            for site in SITES:
                out.append(dict(s=i, d=j, site=site))
            if i in (2, 3) or j in (2, 3):  # multi-operand eq: also with address groups on both sides
                for site in SITES:
                    out.append(dict(s=i, d=j, site=site, grouped=True))
    # heaviest units first: better load balance
    out.sort(key=lambda u: -((ex[u["s"]].heavy + ex[u["d"]].heavy) * 100 +
                             max(len(ex[u["s"]].operands), 1) * max(len(ex[u["d"]].operands), 1)))
    return out


def run_unit(unit, ctx):
    ex = exprs(ctx.seed)
    sx, dx = ex[unit["s"]], ex[unit["d"]]
    item = entry(ctx.seed, sx, dx, unit.get("grouped", False))
    cx = context(ctx.seed)
    if unit["site"] == "Ace":
        _site_ace(item, ctx)
        ctx.sample("entry", item.text("ios"))
        return
    lists = [()]
    for n in range(1, _ctx_len(ctx.tier) + 1):
        lists += list(product(range(len(cx)), repeat=n))
    for cl in lists:
        for pos in range(len(cl) + 1):
            its = [cx[i] for i in cl[:pos]] + [item] + [cx[i] for i in cl[pos:]]
            # sequence-numbered lines (dense numbering 10, 11, ...): quick alternates, thorough both
            modes = (False, True) if ctx.tier == "thorough" else (bool((unit["s"] + len(cl)) % 2),)
            for numbered in modes:
                if numbered and unit["site"].startswith("Acl_mixed"):
                    continue
                check(its, unit["site"], ctx, dict(s=unit["s"], d=unit["d"], ctx=list(cl), pos=pos,
                                                   grouped=unit.get("grouped", False), numbered=numbered))


def replay(case, ctx):
    ex = exprs(ctx.seed)
    item = entry(ctx.seed, ex[case["s"]], ex[case["d"]], case.get("grouped", False))
    if case["site"] == "Ace":
        _site_ace(item, ctx)
        return
    cx = context(ctx.seed)
    cl, pos = case["ctx"], case["pos"]
    its = [cx[i] for i in cl[:pos]] + [item] + [cx[i] for i in cl[pos:]]
    check(its, case["site"], ctx, dict(s=case["s"], d=case["d"], ctx=cl, pos=pos,
                                       grouped=case.get("grouped", False),
                                       numbered=case.get("numbered", False)))


# ------------------------------------------------------------------------------------------------


def _needs_split(acex):
    return any(px.op in ("eq", "neq") and len(px.operands) > 1 for px in (acex.sport, acex.dport))


def _expected_parts(acex):
    """Single-port rules whose union is the original (None if the original needs no split)."""
    if not _needs_split(acex):
        return None
    return True


def _neq_multi(acex):
    return any(px.op == "neq" and len(px.operands) > 1 for px in (acex.sport, acex.dport))


def _per_operand_split(acex, platform):
    """The (wrong for neq) cross-product split the repository's tests pin."""
    def side(px):
        if px.op in ("eq", "neq"):
            return [G.PortX(px.op, (o,)) for o in sorted(px.operands)]
        return [px]

    out = []
    for s in side(acex.sport):
        for d in side(acex.dport):
            kw = {f: getattr(acex, f) for f in G.FIELDS}
            kw.update(sport=s, dport=d)
            out.append(G.AceX(**kw))
    return out


def _read(lines, platform, case, ctx, label):
    rd = Reader(platform)
    out = []
    for ln in lines:
        try:
            out.append(rd.read_line(ln))
        except Reject as ex:
            ctx.viol(f"{label}:result_not_valid_syntax", case, dict(line=ln, why=str(ex)),
                     f"valid {platform} line")
            return None
    return out


def _check_block(orig_rule, acex, block, case, ctx, label, platform):
    """`block` (reader rules) replaces the entry `acex`: C19's per-entry conditions."""
    bad = None
    for r in block:
        if isinstance(r, Remark):
            bad = "a remark inside the replacement block"
            break
        for ex in r._exprs:
            if ex and ex[0] in ("eq", "neq") and len(ex[1]) != 1:
                bad = f"entry still lists several ports: {ex}"
        if (r.action, r.proto, r.src, r.dst, r.flags, r.seq, r.logs) != \
                (orig_rule.action, orig_rule.proto, orig_rule.src, orig_rule.dst, orig_rule.flags,
                 orig_rule.seq, orig_rule.logs):
            bad = "a field other than the ports changed"
    if bad:
        ctx.viol(f"{label}:block_shape", case, [repr(r) for r in block], bad)
        return
    whole = Rule("permit", orig_rule.proto, orig_rule.src, orig_rule.sport, orig_rule.dst,
                 orig_rule.dport, orig_rule.flags)
    parts = [Rule("permit", r.proto, r.src, r.sport, r.dst, r.dport, r.flags) for r in block]
    cex = acl_equivalent(parts, [whole])
    if cex is not None:
        kf = None
        if _neq_multi(acex):
            pinned = [x.rule() for x in _per_operand_split(acex, platform)]
            if len(pinned) == len(block) and all(
                    p.sport == b.sport and p.dport == b.dport for p, b in zip(pinned, block)):
                kf = KF_NEQ
        ctx.viol(f"{label}:union_differs_from_original" + (":neq_per_operand" if kf else ""), case,
                 dict(block=[repr(r) for r in block], packet=list(cex)), repr(orig_rule), kf=kf)


def _members_ok(aces, acex, platform, case, ctx, label):
    """Every entry of the replacement block keeps the group members of the original entry."""
    for side, adr in (("srcaddr", acex.src), ("dstaddr", acex.dst)):
        want = [m.spellings(platform)[0][0] for m in adr.members] if adr.group else []
        for a in aces:
            got = [m.line for m in getattr(a, side).items]
            if got != want:
                ctx.viol(f"{label}:group_members_changed", dict(case, side=side), got, want)
                return False
    return True


def _site_ace(item, ctx):
    from cisco_acl import Ace

    acex = item.acex
    ctx.ev()
    ctx.out("site_Ace")
    case = dict(kind="c19", site="Ace", line=item.text("ios"), grouped=bool(acex.src.group))
    ace = Ace(item.text("ios"), platform="ios", port_nr=True)
    for side, adr in (("srcaddr", acex.src), ("dstaddr", acex.dst)):
        if adr.group:
            getattr(ace, side).items = [m.spellings("ios")[0][0] for m in adr.members]
    before = ace.line
    try:
        res = ace.ungroup_ports()
    except Exception as ex:  # noqa
        ctx.viol("Ace.ungroup_ports:exception", case, repr(ex), "list of Ace")
        return
    if ace.line != before:
        ctx.viol("Ace.ungroup_ports:receiver_modified", case, ace.line, before)
    if not _needs_split(acex):
        ctx.out("no_split_needed")
        if len(res) != 1 or res[0] is not ace:
            ctx.viol("Ace.ungroup_ports:unsplit_entry_not_left_as_it_is", case,
                     [r.line for r in res], "[self]")
        return
    ctx.out("split_done")
    ctx.nt(("Ace", before))
    block = _read([r.line for r in res], "ios", case, ctx, "Ace.ungroup_ports")
    if block is not None:
        _check_block(acex.rule(resolve_groups=False), acex, block, case, ctx, "Ace.ungroup_ports", "ios")
        _members_ok(res, acex, "ios", case, ctx, "Ace.ungroup_ports")
    if len({id(r) for r in res}) != len(res) or any(r is ace for r in res):
        ctx.viol("Ace.ungroup_ports:aliased_results", case, len(res), "fresh distinct objects")
    elif _shared_fields(list(res) + [ace]):
        ctx.viol("Ace.ungroup_ports:entries_share_field_objects", case, _shared_fields(list(res) + [ace]),
                 "every entry owns its protocol/address/port/option objects")


def check(its, site, ctx, where):
    from cisco_acl import AceGroup

    ctx.ev()
    ctx.out(f"site_{site}")
    case = dict(kind="c19", site=site, lines=[it.text("ios") for it in its], **where)
    # names or numbers in the rendered text (alternating): a split must not depend on the spelling
    pnr = bool((where.get("s", 0) + where.get("d", 0) + where.get("pos", 0)) % 2)
    try:
        if site == "AceGroup":
            obj = AceGroup("\n".join(it.text("ios") for it in its), platform="ios", port_nr=pnr)
        elif site == "Acl_loose_first":
            # an ACL grouped by remark prefix, then the entry under test INSERTED at the top as a
            # loose item (list API): the blocks must stay the same objects, the pieces stay loose
            if where.get("pos") != 0 or len(its) < 2 or not (
                    not its[1].is_ace and its[1].remark.startswith("= ")):
                return
            from cisco_acl import Ace as _Ace

            obj = PR.build_acl(its[1:], "ios", group_by="= ", port_nr=pnr)
            loose = _Ace(its[0].text("ios"), platform="ios", port_nr=pnr)
            for side, adr in (("srcaddr", its[0].acex.src), ("dstaddr", its[0].acex.dst)):
                if adr.group:
                    getattr(loose, side).items = [m.spellings("ios")[0][0] for m in adr.members]
            obj.insert(0, loose)
        elif site.startswith("Acl_mixed"):
            # explicit AceGroup item next to plain items (not produced by group_by)
            if len(its) < 2:
                return
            from cisco_acl import Acl

            texts = [it.text("ios") for it in its]
            half = (len(its) + 1) // 2
            if site == "Acl_mixed_head":
                grp = AceGroup(items=texts[:half], platform="ios", port_nr=pnr)
                obj = Acl(name="A", platform="ios", port_nr=pnr, items=[grp, *texts[half:]])
            else:
                grp = AceGroup(items=texts[half:], platform="ios", port_nr=pnr)
                obj = Acl(name="A", platform="ios", port_nr=pnr, items=[*texts[:half], grp])
        else:
            obj = PR.build_acl(its, "ios", group_by="= " if site == "Acl_grouped" else "",
                               port_nr=pnr)
    except Exception as ex:  # noqa
        ctx.viol("harness:build", case, repr(ex), "built")
        return
    if site in ("Acl_grouped", "Acl_loose_first") and sum(it.remark.startswith("= ") for it in its) > 1:
        return  # repeated heading: grouping itself merges blocks (C15)
    if site == "AceGroup" or site.startswith("Acl_mixed"):
        from cisco_acl import Ace

        real_aces = [o for o in _flat(obj) if isinstance(o, Ace)]
        for ace, it in zip(real_aces, [i for i in its if i.is_ace]):
            for side, adr in (("srcaddr", it.acex.src), ("dstaddr", it.acex.dst)):
                if adr.group:
                    getattr(ace, side).items = [m.spellings("ios")[0][0] for m in adr.members]
    numbered = bool(where.get("numbered"))
    if numbered:
        try:
            obj.resequence(10, 1)
        except Exception as ex:  # noqa
            ctx.viol("harness:resequence", case, repr(ex), "numbered")
            return
        ctx.out("numbered_lines")
    ids_before = {}
    for o in _flat(obj):
        ids_before.setdefault(o.line, []).append(o.uuid)
    blocks_before = [(o.uuid, o.note) for o in obj.items if isinstance(o, AceGroup)]
    try:
        if site == "platform_nxos":
            obj.platform = "nxos"
        else:
            obj.ungroup_ports()
    except Exception as ex:  # noqa
        ctx.viol(f"{site}:exception", case, repr(ex), "split done")
        return
    platform = "nxos" if site == "platform_nxos" else "ios"
    if site == "Acl_loose_first":
        blocks_after = [(o.uuid, o.note) for o in obj.items if isinstance(o, AceGroup)]
        n_loose = sum(1 for o in obj.items if not isinstance(o, AceGroup))
        if blocks_after != blocks_before or (n_loose < 1):
            ctx.viol(f"{site}:blocks_rebuilt_or_pieces_moved_into_a_block", case,
                     dict(blocks=blocks_after, loose=n_loose), dict(blocks=blocks_before, loose=">= 1"))
            return
        ctx.out("loose_first_checked")
    lines = [o.line for o in _flat(obj)]
    got = _read(lines, platform, case, ctx, site)
    if got is None:
        return
    # walk: every original item corresponds to one adjacent block
    k = 0
    split_any = False
    orig_rules, new_rules = [], []
    from dataclasses import replace as _replace

    for pos_, it in enumerate(its):
        want_seq = 10 + pos_ if numbered else 0
        if not it.is_ace:
            if k >= len(got) or not isinstance(got[k], Remark) or got[k].text != it.remark:
                ctx.viol(f"{site}:remark_moved_or_lost", case, lines, [i.text(platform) for i in its])
                return
            if getattr(got[k], "seq", want_seq) != want_seq:
                ctx.viol(f"{site}:remark_number_changed", case, lines, want_seq)
                return
            k += 1
            continue
        rule = _replace(it.acex.rule(resolve_groups=False), seq=want_seq)
        orig_rules.append(rule)
        n = 1
        if _needs_split(it.acex):
            n = 1
            for px in (it.acex.sport, it.acex.dport):
                if px.op in ("eq", "neq"):
                    n *= len(set(px.operands))
            split_any = True
        block = got[k:k + n]
        if len(block) != n or any(isinstance(b, Remark) for b in block):
            ctx.viol(f"{site}:block_not_at_original_position", case, lines,
                     f"{n} entries replacing {it.text('ios')!r}")
            return
        _check_block(rule, it.acex, block, case, ctx, site, platform)
        if it.acex.src.group or it.acex.dst.group:
            real = [o for o in _flat(obj)][k:k + n]
            if not _members_ok(real, it.acex, platform, case, ctx, site):
                return
        new_rules.extend(block)
        k += n
    if k != len(got):
        ctx.viol(f"{site}:extra_lines", case, lines, f"{k} lines")
        return
    if not any(_neq_multi(it.acex) for it in its if it.is_ace):
        cex = acl_equivalent(orig_rules, [Rule(r.action, r.proto, r.src, r.sport, r.dst, r.dport,
                                               r.flags) for r in new_rules])
        if cex is not None:
            ctx.viol(f"{site}:decision_changed", dict(case, packet=list(cex)), lines,
                     [i.text("ios") for i in its])
    if _shared_fields(_flat(obj)):
        ctx.viol(f"{site}:entries_share_field_objects", case, _shared_fields(_flat(obj)),
                 "every entry owns its protocol/address/port/option objects")
        return
    if split_any:
        ctx.out("split_done")
        ctx.nt((site, tuple(case["lines"])))
    else:
        ctx.out("no_split_needed")
    # unsplit entries keep their identity (IOS sites only; a platform change re-renders)
    if site != "platform_nxos":
        for o in _flat(obj):
            if o.line in ids_before and len(ids_before[o.line]) == 1 and \
                    lines.count(o.line) == 1 and o.uuid != ids_before[o.line][0]:
                ctx.viol(f"{site}:unsplit_entry_replaced", case, o.line, "same object as before")
                break


FIELD_ATTRS = ("protocol", "srcaddr", "srcport", "dstaddr", "dstport", "option")


def _shared_fields(aces):
    """Names of field objects (or group members) that two of the entries share."""
    seen, shared = {}, []
    for k, a in enumerate(aces):
        if not hasattr(a, "srcaddr"):
            continue
        objs = [(f, getattr(a, f)) for f in FIELD_ATTRS]
        objs += [(f"{side}.member", m) for side in ("srcaddr", "dstaddr") for m in getattr(a, side).items]
        for name, o in objs:
            if id(o) in seen and seen[id(o)] != k:
                shared.append(name)
            seen[id(o)] = k
    return shared


def _flat(obj):
    from cisco_acl import AceGroup

    out = []
    for o in obj.items:
        if isinstance(o, AceGroup):
            out.extend(_flat(o))
        else:
            out.append(o)
    return out
