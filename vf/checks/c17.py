"""C17 - any sequence of public operations keeps an ACL consistent with a reference model.

Explicit-state search: states are operation histories from three seed ACLs; every history up to
depth D over ~21 public operations is replayed on a fresh real Acl with a small reference model
stepped in lock-step.  Invariant after every step:
 (1) the rendered text parses back to itself (same configuration);
 (2) the independent reader's denotation of the text equals the model's ordered leaf list;
 (3) group members and block structure equal the model's;
 (4) history independence: for every operation, applying it to the history object and to the
     object rebuilt from data() leads to the same fingerprint.
"""
from __future__ import annotations

from copy import deepcopy
from dataclasses import dataclass, field
from itertools import product

from vf.gen import alpha as G
from vf.refsem import sets as S
from vf.refsem.packets import Remark, Rule
from vf.refsem.reader import Reader, Reject

ID = "C17"
LEVEL = "model_checking"
RULE = ("every operation history up to the stated depth from each seed ACL (a state is the history "
        "reaching it; distinct states are counted by fingerprint = text + block structure + members + "
        "configuration); every transition is executed on the real object and on the reference model; "
        "non-trivial = histories of length >= 2; traces = complete histories replayed against the "
        "implementation")
ASSUMPTIONS = [
    "reference model of the operations in this file (grouping by heading, port split incl. the pinned "
    "per-operand split of multi-operand neq, shadow removal by the library's member-wise relation)",
    "sort() is only offered when the top-level sequence numbers are distinct and non-zero",
    "seeds use distinct block headings (repeated headings are C15's subject)",
]
REQUIRED = ["step_ok", "history_independent", "split_happened", "shadow_removed", "regrouped",
            "refused_op"]

OPS = ["platform=ios", "platform=nxos", "port_nr=T", "port_nr=F", "protocol_nr=T", "protocol_nr=F",
       "reseq(10,10)", "reseq(5,3)", "reseq(0,1)", "group", "ungroup", "sort", "reverse", "rotate",
       "pop", "insert", "copy", "import", "reparse", "delete_shadow", "ungroup_ports"]
STRUCT_OPS = ["platform=nxos", "platform=ios", "reseq(10,10)", "group", "ungroup", "sort", "rotate",
              "insert", "reparse", "delete_shadow"]
PREFIX = "= "


def _depth(tier):
    return 2 if tier == "quick" else 3


def describe(tier, seed):
    return dict(depth=_depth(tier), operations=OPS,
                extra_depth=None if tier == "quick" else dict(depth=4, operations=STRUCT_OPS),
                seeds=[(p, lines, g) for p, lines, _m, g in seeds(seed)])


# ------------------------------------------------------------------------------------ the model


@dataclass
class Leaf:
    kind: str  # "remark" | "ace"
    text: str = ""  # remark text
    rule: Rule = None  # ace meaning (seq carried separately)
    seq: int = 0
    sexpr: tuple = None  # (op, operands) or None
    dexpr: tuple = None
    smem: list = field(default_factory=list)  # member cubes of the source group
    dmem: list = field(default_factory=list)


@dataclass
class Block:
    name: str
    seq: int
    leaves: list


@dataclass
class Model:
    platform: str
    port_nr: bool = False
    protocol_nr: bool = False
    group_by: str = ""
    top: list = field(default_factory=list)  # Leaf | Block
    indent: str = "  "   # settings no operation of the alphabet may change
    max_ncwb: int = 16

    def flat(self):
        out = []
        for t in self.top:
            out.extend(t.leaves if isinstance(t, Block) else [t])
        return out

    def regroup(self, prefix):
        buckets = {"": []}
        name = ""
        for leaf in self.flat():
            if leaf.kind == "remark" and leaf.text.startswith(prefix):
                name = leaf.text
                if name not in buckets:
                    buckets[name] = [leaf]
                continue
            buckets[name].append(leaf)
        self.top = [Block(n, 0, ls) for n, ls in buckets.items() if ls]
        self.group_by = prefix

    def has_loose(self):
        return any(not isinstance(t, Block) for t in self.top)


def _split_leaf(leaf):
    """Port split of one ACE leaf (eq: exact; multi-operand neq: the pinned per-operand split)."""
    if leaf.kind != "ace":
        return [leaf]

    def side(expr):
        if expr and expr[0] in ("eq", "neq") and len(expr[1]) > 1:
            return [(expr[0], (o,)) for o in sorted(expr[1])]
        return [expr]

    ss, ds = side(leaf.sexpr), side(leaf.dexpr)
    if len(ss) == 1 and len(ds) == 1:
        return [leaf]
    out = []
    for s in ss:
        for d in ds:
            r = leaf.rule
            rule = Rule(r.action, r.proto, r.src, S.port_expr_mask(*s) if s else S.PORT_ANY, r.dst,
                        S.port_expr_mask(*d) if d else S.PORT_ANY, r.flags, 0, r.logs, r.flag_tokens,
                        r.src_group, r.dst_group)
            out.append(Leaf("ace", "", rule, leaf.seq, s, d, list(leaf.smem), list(leaf.dmem)))
    return out


def _covers(top: Leaf, bot: Leaf) -> bool:
    """The library's shadow relation: exact per field, member-wise for address groups."""
    a, b = top.rule, bot.rule
    if a.action != b.action:
        return False
    if b.pmask & ~a.pmask or b.flags & ~a.flags:
        return False
    for texpr, bexpr, tm, bm in ((top.sexpr, bot.sexpr, a.sport, b.sport),
                                 (top.dexpr, bot.dexpr, a.dport, b.dport)):
        if texpr is None:
            continue
        if bexpr is None or bm & ~tm:
            return False
    for tc, bc, tg, bg, tmem, bmem in ((a.src, b.src, a.src_group, b.src_group, top.smem, bot.smem),
                                       (a.dst, b.dst, a.dst_group, b.dst_group, top.dmem, bot.dmem)):
        tcubes = tmem if tg else list(tc)
        bcubes = bmem if bg else list(bc)
        if not tcubes or not bcubes:
            return False
        # member-wise on the prefix expansion the library uses (cube vs cube is exact)
        if not all(any(S.cube_subset(x, y) for y in tcubes) for x in bcubes):
            return False
    return True


def model_apply(m: Model, op: str, new_leaf: Leaf):
    """Apply op to the model; return 'ok' | 'disabled'."""
    if op.startswith("platform="):
        target = op.split("=")[1]
        if target == "nxos":
            _model_split(m)
        m.platform = target
    elif op.startswith("port_nr="):
        m.port_nr = op.endswith("T")
    elif op.startswith("protocol_nr="):
        m.protocol_nr = op.endswith("T")
    elif op.startswith("reseq"):
        start, step = eval(op[5:])  # noqa - literal tuple from OPS
        n = start
        leaves = m.flat()
        for i, leaf in enumerate(leaves):
            leaf.seq = start + i * step if start else 0
        for t in m.top:
            if isinstance(t, Block):
                t.seq = t.leaves[-1].seq
        _ = n
    elif op == "group":
        m.regroup(PREFIX)
    elif op == "ungroup":
        m.top = m.flat()
        m.group_by = ""
    elif op == "sort":
        seqs = [t.seq for t in m.top]
        if not seqs or 0 in seqs or len(set(seqs)) != len(seqs):
            return "disabled"
        m.top.sort(key=lambda t: t.seq)
    elif op == "reverse":
        m.top.reverse()
    elif op == "rotate":
        if not m.top:
            return "disabled"
        m.top.insert(0, m.top.pop())
    elif op == "pop":
        if not m.top:
            return "disabled"
        m.top.pop()
    elif op == "insert":
        m.top.insert(0, deepcopy(new_leaf))
    elif op in ("copy", "import"):
        if m.group_by and m.top and not any(isinstance(t, Block) for t in m.top):
            m.regroup(m.group_by)
    elif op == "reparse":
        for leaf in m.flat():
            leaf.smem, leaf.dmem = [], []
        if m.group_by:
            m.regroup(m.group_by)
        else:
            m.top = m.flat()
    elif op == "delete_shadow":
        leaves = m.flat()
        gone = set()
        for j, b in enumerate(leaves):
            if b.kind != "ace":
                continue
            if any(t.kind == "ace" and _covers(t, b) for t in leaves[:j]):
                gone.add(id(b))
        if gone:
            if any(isinstance(t, Block) for t in m.top) or m.group_by:
                keep = [x for x in leaves if id(x) not in gone]
                m.top = keep
                if m.group_by:
                    m.regroup(m.group_by)
            else:
                m.top = [x for x in leaves if id(x) not in gone]
    elif op == "ungroup_ports":
        _model_split(m)
    return "ok"


def _model_split(m: Model):
    new_top = []
    for t in m.top:
        if isinstance(t, Block):
            t.leaves = [x for leaf in t.leaves for x in _split_leaf(leaf)]
            new_top.append(t)
        else:
            new_top.extend(_split_leaf(t))
    m.top = new_top
    # the items setter groups only a list that holds no block at all
    if m.group_by and m.top and not any(isinstance(t, Block) for t in m.top):
        m.regroup(m.group_by)


# ------------------------------------------------------------------------------------ seeds


def seeds(seed):
    w = G.window(seed)
    ip = S.int2ip
    mem_ios = ["host " + ip(w + 9), f"{ip(w + 128)} 0.0.0.127"]
    mem_nx = ["host " + ip(w + 9), f"{ip(w + 128)}/25"]
    return [
        # flat and numbered: reverse / rotate followed by sort() has something to restore, with
        # remarks standing among the entries
        ("ios", ["10 remark = web", f"20 permit tcp {ip(w)} 0.0.0.255 any eq 80 443",
                 f"30 permit tcp host {ip(w + 1)} any eq 443", "40 remark = dns",
                 "50 deny udp any object-group GRP eq 53 log", "60 permit tcp any any eq 135",
                 "70 permit ip any any", "80 permit icmp any any"],
         {"GRP": mem_ios}, ""),
        ("nxos", ["10 remark = one", f"20 permit tcp {ip(w)}/24 any eq 22", "30 permit ip addrgroup GRP any",
                  "40 remark = two", f"50 deny ip host {ip(w + 1)} any", "60 permit ip any any"],
         {"GRP": mem_nx}, PREFIX),  # this seed starts grouped (blocks carry sequence numbers)
        # first and last line are equal; the last one already carries the number 10
        # ... and a port-less tcp entry above a tcp entry with ports (protocol_nr renders the
        # former as a number and keeps the keyword of the latter)
        ("ios", ["permit 47 any any", "remark lead", "permit tcp host 10.3.3.3 any",
                 f"permit ip {ip(w)} 0.0.1.3 any",
                 "remark = only", "deny tcp any any neq 25", "permit tcp any any eq 135",
                 "permit tcp host 10.3.3.3 any eq 22", "10 permit 47 any any"], {}, ""),
    ]


SEED_VERSION = ["", "9.3(8)", "15.2(4)M"]  # the third seed renders names from the IOS 15 table
SEED_KW = [dict(), dict(indent=" "), dict(indent="   ", max_ncwb=20)]  # non-default settings
NEW_ENTRY = dict(ios="permit udp host 10.250.0.9 any eq 123", nxos="permit udp host 10.250.0.9 any eq 123")


def _leaf_from_line(line, platform, members):
    r = Reader(platform).read_line(line)
    if isinstance(r, Remark):
        return Leaf("remark", r.text, None, r.seq)
    sm = [Reader(platform)._addr(x.split())[0][0] for x in members.get(r.src_group, [])] if r.src_group else []
    dm = [Reader(platform)._addr(x.split())[0][0] for x in members.get(r.dst_group, [])] if r.dst_group else []
    rule = Rule(r.action, r.proto, r.src, r.sport, r.dst, r.dport, r.flags, 0, r.logs, r.flag_tokens,
                r.src_group, r.dst_group)
    return Leaf("ace", "", rule, r.seq, r._exprs[0], r._exprs[1], sm, dm)


def build(si, ctx):
    """Fresh real Acl + model for seed si."""
    from cisco_acl import Ace, Acl

    platform, lines, members, group_by = seeds(ctx.seed)[si]
    head = "ip access-list extended A" if platform == "ios" else "ip access-list A"
    acl = Acl(head + "\n" + "\n".join(" " + x for x in lines), platform=platform,
              version=SEED_VERSION[si], **SEED_KW[si])
    for o in acl.items:
        if isinstance(o, Ace):
            for side in ("srcaddr", "dstaddr"):
                adr = getattr(o, side)
                if adr.addrgroup:
                    adr.items = list(members[adr.addrgroup])
    model = Model(platform, top=[_leaf_from_line(x, platform, members) for x in lines],
                  indent=SEED_KW[si].get("indent", "  "), max_ncwb=SEED_KW[si].get("max_ncwb", 16))
    if group_by:
        acl.group(group_by)
        acl.resequence(10, 10)
        model.regroup(group_by)
        model_apply(model, "reseq(10,10)", None)
    return acl, model


# ------------------------------------------------------------------------------------ real ops


def real_apply(acl, op):
    """Apply op to the real object; return (acl, 'ok' | 'disabled')."""
    from cisco_acl import Ace, Acl

    if op.startswith("platform="):
        acl.platform = op.split("=")[1]
    elif op.startswith("port_nr="):
        acl.port_nr = op.endswith("T")
    elif op.startswith("protocol_nr="):
        acl.protocol_nr = op.endswith("T")
    elif op.startswith("reseq"):
        acl.resequence(*eval(op[5:]))  # noqa
    elif op == "group":
        acl.group(PREFIX)
    elif op == "ungroup":
        acl.ungroup()
    elif op == "sort":
        seqs = [o.sequence for o in acl.items]
        if not seqs or 0 in seqs or len(set(seqs)) != len(seqs):
            return acl, "disabled"
        acl.sort()
    elif op == "reverse":
        acl.reverse()
    elif op == "rotate":
        if not acl.items:
            return acl, "disabled"
        acl.insert(0, acl.pop())
    elif op == "pop":
        if not acl.items:
            return acl, "disabled"
        acl.pop()
    elif op == "insert":
        acl.insert(0, Ace(NEW_ENTRY[acl.platform], platform=acl.platform, version=acl.version,
                          port_nr=acl.port_nr, protocol_nr=acl.protocol_nr))
    elif op == "copy":
        acl = acl.copy()
    elif op == "import":
        acl = Acl(**acl.data())
    elif op == "reparse":
        acl = Acl(acl.line, platform=acl.platform, version=str(acl.version), port_nr=acl.port_nr,
                  protocol_nr=acl.protocol_nr, group_by=acl.group_by, indent=acl.indent,
                  max_ncwb=acl.max_ncwb)
    elif op == "delete_shadow":
        acl.delete_shadow()
    elif op == "ungroup_ports":
        acl.ungroup_ports()
    return acl, "ok"


def fingerprint(acl):
    from cisco_acl import Ace, AceGroup

    def leaf(o):
        if isinstance(o, Ace):
            return (o.line, tuple(m.line for m in o.srcaddr.items), tuple(m.line for m in o.dstaddr.items))
        return (o.line,)

    struct = []
    for o in acl.items:
        if isinstance(o, AceGroup):
            struct.append(("block", o.name, o.sequence, tuple(leaf(i) for i in o.items)))
        else:
            struct.append(("loose", leaf(o)))
    return (acl.line, tuple(struct), acl.platform, acl.port_nr, acl.protocol_nr, acl.group_by, acl.name,
            acl.type)


# ------------------------------------------------------------------------------------ invariant


def check_state(acl, model, case, ctx):
    """Invariants (1)-(3); returns False on violation."""
    from cisco_acl import Ace, AceGroup, Acl

    # (1) text fixed point
    try:
        again = Acl(acl.line, platform=acl.platform, version=str(acl.version), port_nr=acl.port_nr,
                    protocol_nr=acl.protocol_nr, indent=acl.indent)
    except Exception as ex:  # noqa
        ctx.viol("state:text_does_not_reparse", case, repr(ex), acl.line)
        return False
    if again.line != acl.line:
        ctx.viol("state:text_not_a_fixed_point", case, again.line, acl.line)
        return False
    # configuration
    if (acl.platform, acl.port_nr, acl.protocol_nr, acl.group_by, acl.indent, acl.max_ncwb) != \
            (model.platform, model.port_nr, model.protocol_nr, model.group_by, model.indent, model.max_ncwb):
        ctx.viol("state:configuration_differs_from_model", case,
                 (acl.platform, acl.port_nr, acl.protocol_nr, acl.group_by, acl.indent, acl.max_ncwb),
                 (model.platform, model.port_nr, model.protocol_nr, model.group_by, model.indent,
                  model.max_ncwb))
        return False
    body = acl.line.split("\n")[1:]
    if any(not ln.startswith(model.indent) or ln[len(model.indent):len(model.indent) + 1].isspace()
           for ln in body if ln):
        ctx.viol("state:indentation_differs_from_setting", case, acl.line, repr(model.indent))
        return False
    # (2) denotation of the text == model leaves
    try:
        ver = "" if str(acl.version) == "0" else str(acl.version)
        got = Reader(acl.platform, port_names=G.port_vocab(acl.platform, ver)).read_acl(acl.line)["items"]
    except Reject as ex:
        ctx.viol("state:text_not_valid_for_platform", case, dict(text=acl.line, why=str(ex)),
                 f"valid {acl.platform}")
        return False
    want = model.flat()
    ok = len(got) == len(want)
    if ok:
        for g, wl in zip(got, want):
            if wl.kind == "remark":
                ok = isinstance(g, Remark) and g.text == wl.text and g.seq == wl.seq
            else:
                ok = (not isinstance(g, Remark) and g.sem() == wl.rule.sem() and g.seq == wl.seq
                      and g.logs == wl.rule.logs and g.src_group == wl.rule.src_group
                      and g.dst_group == wl.rule.dst_group)
            if not ok:
                break
    if not ok:
        ctx.viol("state:rule_list_differs_from_model", case, acl.line,
                 [(w.text if w.kind == "remark" else repr(w.rule), w.seq) for w in want])
        return False
    # (3) structure and members
    struct_real = [(o.name, o.sequence, len(o.items)) if isinstance(o, AceGroup) else None
                   for o in acl.items]
    struct_model = [(t.name, t.seq, len(t.leaves)) if isinstance(t, Block) else None for t in model.top]
    if struct_real != struct_model:
        ctx.viol("state:block_structure_differs_from_model", case, struct_real, struct_model)
        return False
    aces = []

    def walk(items):
        for o in items:
            if isinstance(o, AceGroup):
                walk(o.items)
            elif isinstance(o, Ace):
                aces.append(o)

    walk(acl.items)
    rd = Reader(acl.platform)
    for o, wl in zip(aces, [w for w in want if w.kind == "ace"]):
        for side, mem in (("srcaddr", wl.smem), ("dstaddr", wl.dmem)):
            try:
                got_c = [rd._addr(x.line.split())[0][0] for x in getattr(o, side).items]
            except (Reject, IndexError) as ex:
                ctx.viol("state:member_not_valid_for_platform", case, str(ex), mem)
                return False
            if got_c != list(mem):
                ctx.viol("state:group_members_differ_from_model", case,
                         [x.line for x in getattr(o, side).items], mem)
                return False
    return True


def run_history(si, ops, ctx, independence=True):
    case = dict(kind="history", seed_acl=si, ops=list(ops))
    acl, model = build(si, ctx)
    new_leaf = None
    for step, op in enumerate(ops):
        if op == "insert":
            new_leaf = _leaf_from_line(NEW_ENTRY[model.platform], model.platform, {})
        try:
            acl2, res = real_apply(acl, op)
        except (ValueError, TypeError) as ex:
            ctx.viol(f"op:{op.split('(')[0].split('=')[0]}:refused_on_valid_acl", dict(case, step=step),
                     repr(ex), "operation succeeds")
            return
        except Exception as ex:  # noqa
            ctx.viol(f"op:{op.split('(')[0].split('=')[0]}:unexpected_exception", dict(case, step=step),
                     repr(ex), "operation succeeds")
            return
        mres = model_apply(model, op, new_leaf)
        if res != mres:
            ctx.viol("harness:enabledness_differs", dict(case, step=step), res, mres)
            return
        if res == "disabled":
            ctx.out("refused_op")
            return
        acl = acl2
        ctx.trans()
        fp = fingerprint(acl)
        ctx.state(fp)
        if not check_state(acl, model, dict(case, step=step), ctx):
            return
        ctx.out("step_ok")
    ctx.trace()
    n_leaves = len(model.flat())
    if any(o in ops for o in ("platform=nxos", "ungroup_ports")) and si == 0:
        ctx.out("split_happened")
    if "delete_shadow" in ops and n_leaves < (8 if si == 0 else 9 if si == 2 else 6) + ops.count("insert"):
        ctx.out("shadow_removed")
    if model.group_by:
        ctx.out("regrouped")
    # (4) history independence at the reached state
    if independence:
        from cisco_acl import Acl

        for op in OPS:
            a1, _ = build_replay(si, ops, ctx)
            a2 = Acl(**a1.data())
            try:
                b1, r1 = real_apply(a1, op)
                f1 = fingerprint(b1) if r1 == "ok" else "disabled"
            except Exception as ex:  # noqa
                f1 = ("exception", type(ex).__name__)
            try:
                b2, r2 = real_apply(a2, op)
                f2 = fingerprint(b2) if r2 == "ok" else "disabled"
            except Exception as ex:  # noqa
                f2 = ("exception", type(ex).__name__)
            ctx.trans(2)
            if f1 != f2:
                ctx.viol(f"independence:{op.split('(')[0].split('=')[0]}", dict(case, next_op=op),
                         _short(f1), _short(f2),
                         "the same operation gives different results on the history object and on the "
                         "object rebuilt from data()")
                return
        ctx.out("history_independent")


def _short(fp):
    if isinstance(fp, tuple) and len(fp) > 2 and isinstance(fp[0], str):
        return dict(text=fp[0], structure=[s[:3] if s[0] == "block" else s for s in fp[1]])
    return fp


def build_replay(si, ops, ctx):
    acl, model = build(si, ctx)
    for op in ops:
        acl, _ = real_apply(acl, op)
    return acl, model


def units(tier, seed):
    out = []
    d = _depth(tier)
    for si in range(3):
        out.append(dict(seed_acl=si, first=[], depth=1))
        for a in range(len(OPS)):
            if d == 2:
                out.append(dict(seed_acl=si, first=[a], depth=2))
            else:
                out.append(dict(seed_acl=si, first=[a], depth=2))
                for b in range(len(OPS)):
                    out.append(dict(seed_acl=si, first=[a, b], depth=3))
        if tier == "thorough":
            for a in range(len(STRUCT_OPS)):
                for b in range(len(STRUCT_OPS)):
                    out.append(dict(seed_acl=si, first=[a, b], depth=4, struct=True))
    return out


def run_unit(unit, ctx):
    ops = STRUCT_OPS if unit.get("struct") else OPS
    first = [ops[i] for i in unit["first"]]
    rest = unit["depth"] - len(first)
    # independence is checked at states of depth < max depth (successors of the deepest states are
    # not explored anyway)
    maxd = 4 if unit.get("struct") else _depth(ctx.tier)
    for suffix in product(ops, repeat=rest):
        hist = first + list(suffix)
        ctx.ev()
        if len(hist) >= 2:
            ctx.nt_count()
        run_history(unit["seed_acl"], hist, ctx,
                    independence=len(hist) < maxd and not unit.get("struct"))
    if unit["depth"] == 1:
        # determinism self-check: replay the first history twice
        from vf.ctx import Ctx, HarnessError

        c1, c2 = Ctx(), Ctx()
        run_history(unit["seed_acl"], [OPS[0], OPS[9]], c1, independence=False)
        run_history(unit["seed_acl"], [OPS[0], OPS[9]], c2, independence=False)
        if c1.states != c2.states:
            raise HarnessError("non-deterministic replay")
        # depth 0: the seed itself
        acl, model = build(unit["seed_acl"], ctx)
        check_state(acl, model, dict(kind="history", seed_acl=unit["seed_acl"], ops=[]), ctx)
    ctx.sample("history", dict(seed_acl=unit["seed_acl"], ops=hist))


def replay(case, ctx):
    run_history(case["seed_acl"], case["ops"], ctx, independence=True)
