"""C20 - arbitrary text only ever yields an object or a documented value/type error.

(i)   every token sequence of length <= L over a vocabulary of ACL words, fragments, out-of-range
      values and oddities, given to all 11 constructors on every platform;
(ii)  every character-level prefix and suffix and every token permutation (<= 6 tokens) of valid
      lines of every class;
(iii) whole configurations: every assignment of an indentation to each of <= 5 lines over 4 line
      lists, with and without comment lines, to acls/aces/addrgroups; empty / blank-only input;
(iv)  length sweeps n in {1, 10, 100, 1000, 5000} for every loop / recursion / regex on the input path.
Oracle: the call returns or raises ValueError/TypeError (subclasses included) within its CPU
budget; anything it returns renders text that the same constructor accepts again.
"""
from __future__ import annotations

import time
from itertools import permutations, product

from vf.ctx import HarnessTimeout, cpu_alarm

ID = "C20"
LEVEL = "exploration"
RULE = ("complete enumeration of the stated token sequences / truncations / permutations / "
        "indentation assignments / repetition counts; non-trivial = distinct (constructor, platform, "
        "text) for which the constructor RETURNED an object (the re-acceptance half of the property "
        "was exercised)")
ASSUMPTIONS = ["documented errors = ValueError, TypeError and their subclasses (AddressValueError, "
               "NetmaskValueError)", "per-call CPU budget 2 s (sweeps: 30 s and at most ~quadratic growth)"]
REQUIRED = ["returned_and_reaccepted", "documented_error", "config_returned", "sweep_ok",
            "option_returned", "items_returned"]
KF_UNNAMED = "C20:Acl:empty_text_gives_unnamed_acl_whose_text_is_rejected"
KF_NESTING = "C20:config:nesting_deeper_than_recursion_limit"
KF_MASK0 = "C20:AddressAg:ios_member_with_mask_0.0.0.0_renders_denied_text"

PLATFORMS = ("ios", "nxos", "asa")
VOCAB = ["permit", "deny", "remark", "ip", "tcp", "6", "any", "host", "10.0.0.1", "0.0.0.255",
         "10.0.0.0/24", "300.1.1.1", "10.0.0.0/33", "eq", "range", "neq", "80", "135", "www", "65536", "-1",
         "/", "１２", "", "object-group", "log", "9999999999999999999999999",
         "0.0.0.0"]
VOCAB_SMALL = ["permit", "remark", "tcp", "any", "host", "10.0.0.1", "0.0.0.255", "10.0.0.0/24", "eq",
               "range", "80", "135", "www", "65536", "１２", "object-group", "log", "9999999999999999999999999"]
CTORS = ["Ace", "Remark", "AceGroup", "Acl", "Acl_body", "Address", "AddressAg", "AddrGroup",
         "AddrGroup_body", "Port", "Protocol", "Option", "Wildcard"]

VALID = {
    "Ace": ["10 permit tcp host 10.0.0.1 eq 179 10.0.0.0 0.0.0.3 eq www 443 log",
            "deny udp any range 1 3 object-group G gt 65533", "permit 47 10.0.0.0/24 any",
            # numbers whose NAME exists on one platform / version table only
            "permit tcp any eq 3949 any eq 135 15001", "permit udp any any eq 521"],
    "Remark": ["10 remark some text, here", "remark x"],
    "AceGroup": ["10 permit ip any any\n20 remark t\ndeny tcp any any eq 80"],
    "Acl": ["ip access-list extended A\n permit ip any any\n remark t",
            "ip access-list standard S\n permit host 10.0.0.1"],
    "Address": ["10.0.0.0 0.0.1.3", "host 10.0.0.1", "object-group NAME", "10.0.0.0/24"],
    "AddressAg": ["10.0.0.0 255.255.255.0", "group-object NAME", "host 10.0.0.1"],
    "AddrGroup": ["object-group network G\n host 10.0.0.1\n 10.0.0.0 255.255.255.0"],
    "Port": ["eq www 443", "range 1 65535"],
    "Protocol": ["tcp", "255"],
    "Option": ["ack syn log"],
    "Wildcard": ["10.0.0.0 0.0.1.3"],
}
CONFIG_LINES = [
    ["ip access-list extended A", "permit ip any any", "remark t", "interface Ethernet1",
     "ip access-group A in"],
    ["object-group network G", "host 10.0.0.1", "ip access-list extended A",
     "permit ip object-group G any", "deny ip any any"],
    ["interface Ethernet1", "ip access-group A in", "ip access-group A out",
     "ip access-list standard S", "permit host 10.0.0.1"],
    ["router bgp 1", "address-family ipv4", "neighbor 1.1.1.1 activate", "ip access-list extended A",
     "10 permit tcp any any eq 80 443"],
    ["object-group network G", "group-object OTHER", "host 10.0.0.1", "ip access-list extended A",
     "permit ip object-group G any"],
]
INDENTS = ["", " ", "  ", "   ", "\t"]
SWEEP_N = [1, 10, 100, 1000, 5000]


def _L(tier):
    return 3 if tier == "quick" else 4


def describe(tier, seed):
    return dict(soup_max_len=_L(tier), vocabulary=VOCAB, vocabulary_at_max_len_thorough=VOCAB_SMALL,
                constructors=CTORS, platforms=PLATFORMS, sweep_n=SWEEP_N,
                indentation_choices=INDENTS[:4] + ["\\t"] if tier == "thorough" else INDENTS[:3] + ["\\t"])


def units(tier, seed):
    out = []
    for plat in PLATFORMS:
        out.append(dict(kind="soup", platform=plat, first=None))
        for a in range(len(VOCAB)):
            out.append(dict(kind="soup", platform=plat, first=a))
        if tier == "thorough":
            for a in range(len(VOCAB_SMALL)):
                for b in range(len(VOCAB_SMALL)):
                    out.append(dict(kind="soup4", platform=plat, first=[a, b]))
        for cls in VALID:
            out.append(dict(kind="mangle", platform=plat, cls=cls))
    for li in range(len(CONFIG_LINES)):
        for plat in ("ios", "nxos"):
            for bang in (False, True):
                out.append(dict(kind="config", platform=plat, lines=li, bang=bang))
    out.append(dict(kind="config_misc"))
    for plat in ("ios", "nxos"):
        for opt in OPTIONS:
            out.append(dict(kind="options", platform=plat, option=opt))
        out.append(dict(kind="items", platform=plat))
    for plat in ("ios", "nxos"):
        out.append(dict(kind="long_valid", platform=plat))
    for i in range(len(sweeps())):
        out.append(dict(kind="sweep", idx=i))
    return out


def run_unit(unit, ctx):
    k = unit["kind"]
    if k == "soup":
        if unit["first"] is None:
            for text in ("", " ", "\t", "\n", " \n \n"):
                for c in CTORS:
                    call(c, unit["platform"], text, ctx)
            return
        for n in range(1, _L(ctx.tier) + 1):
            if n == 4:
                break
            for rest in product(VOCAB, repeat=n - 1):
                text = " ".join((VOCAB[unit["first"]],) + rest)
                for c in CTORS:
                    call(c, unit["platform"], text, ctx)
        ctx.sample("soup", text)
    elif k == "soup4":
        a, b = unit["first"]
        for rest in product(VOCAB_SMALL, repeat=2):
            text = " ".join((VOCAB_SMALL[a], VOCAB_SMALL[b]) + rest)
            for c in CTORS:
                call(c, unit["platform"], text, ctx)
    elif k == "mangle":
        _mangle(unit, ctx)
    elif k == "config":
        _config(unit, ctx)
    elif k == "config_misc":
        _config_misc(ctx)
    elif k == "options":
        _options(unit["platform"], unit["option"], ctx)
    elif k == "items":
        _items(unit["platform"], ctx)
    elif k == "long_valid":
        _long_valid(unit["platform"], ctx)
    elif k == "sweep":
        _sweep(unit["idx"], ctx)


def replay(case, ctx):
    if case["kind"] == "call":
        call(case["ctor"], case["platform"], case["text"], ctx)
    elif case["kind"] == "config_call":
        config_call(case["func"], case["platform"], case["text"], ctx)
    elif case["kind"] == "sweep":
        _sweep(case["idx"], ctx)
    elif case["kind"] == "items_call":
        items_call(case["target"], case["platform"], case["items"], ctx)
    elif case["kind"] == "option_call":
        option_call(case["target"], case["platform"], case["text"], case["option"], case["value"], ctx)


# ------------------------------------------------------------------------------------------------


def _construct(ctor, platform, text):
    import cisco_acl

    if ctor == "Acl_body":
        return cisco_acl.Acl("ip access-list extended A\n " + text,
                             platform=platform if platform != "asa" else "ios")
    if ctor == "AddrGroup_body":
        head = "object-group ip address G" if platform == "nxos" else "object-group network G"
        return cisco_acl.AddrGroup(head + "\n " + text, platform=platform)
    if ctor == "Port":
        return cisco_acl.Port(text, platform=platform, protocol="tcp")
    return getattr(cisco_acl, ctor)(text, platform=platform)


def _reconstruct(ctor, platform, obj):
    import cisco_acl

    cls = ctor.split("_")[0]
    if cls == "Port":
        return cisco_acl.Port(obj.line, platform=obj.platform, protocol="tcp")
    return getattr(cisco_acl, cls)(obj.line, platform=obj.platform)


def call(ctor, platform, text, ctx):
    ctx.ev()
    case = dict(kind="call", ctor=ctor, platform=platform, text=text)
    try:
        with cpu_alarm(2.0):
            obj = _construct(ctor, platform, text)
    except (ValueError, TypeError):
        ctx.out("documented_error")
        return
    except HarnessTimeout:
        ctx.viol(f"{ctor}:cpu_budget_exceeded", case, "more than 2 s CPU", "returns or raises quickly")
        return
    except Exception as ex:  # noqa
        ctx.viol(f"{ctor}:undocumented_exception:{type(ex).__name__}", case, repr(ex),
                 "object or ValueError/TypeError")
        return
    # anything returned renders text the same constructor accepts again
    try:
        with cpu_alarm(2.0):
            line = obj.line
            _reconstruct(ctor, platform, obj)
    except HarnessTimeout:
        ctx.viol(f"{ctor}:cpu_budget_exceeded_on_reparse", case, "more than 2 s CPU", "quick")
        return
    except Exception as ex:  # noqa
        kf = None
        if ctor == "Acl" and not text.strip() and isinstance(ex, ValueError):
            kf = KF_UNNAMED
        if ctor in ("AddressAg", "AddrGroup", "AddrGroup_body") and platform == "ios" and \
                isinstance(ex, ValueError) and text.split()[-1:] == ["0.0.0.0"] and \
                _safe_line(obj).endswith("0.0.0.0 0.0.0.0"):
            kf = KF_MASK0
        ctx.viol(f"{ctor}:own_rendering_rejected" + (":unnamed_acl" if kf == KF_UNNAMED else ":ios_mask_0"
                                                     if kf else ""), case,
                 dict(line=_safe_line(obj), error=repr(ex)), "accepted again", kf=kf)
        return
    ctx.out("returned_and_reaccepted")
    ctx.nt((ctor, platform, text))
    _ = line


def _safe_line(obj):
    try:
        return obj.line
    except Exception as ex:  # noqa
        return f"<line raises {ex!r}>"


def _mangle(unit, ctx):
    cls, plat = unit["cls"], unit["platform"]
    for text in VALID[cls]:
        seen = set()
        for k in range(len(text) + 1):
            for piece in (text[:k], text[k:]):
                if piece not in seen:
                    seen.add(piece)
                    call(cls, plat, piece, ctx)
        toks = text.split(" ")
        if len(toks) <= 6:
            for perm in permutations(toks):
                t = " ".join(perm)
                if t not in seen:
                    seen.add(t)
                    call(cls, plat, t, ctx)
        else:
            # all permutations of every window of 5 adjacent tokens, the rest in place
            for i in range(len(toks) - 4):
                for perm in permutations(toks[i:i + 5]):
                    t = " ".join(toks[:i] + list(perm) + toks[i + 5:])
                    if t not in seen:
                        seen.add(t)
                        call(cls, plat, t, ctx)
        # drop / duplicate each token
        for i in range(len(toks)):
            for t in (" ".join(toks[:i] + toks[i + 1:]), " ".join(toks[:i] + [toks[i]] * 2 + toks[i + 1:])):
                if t not in seen:
                    seen.add(t)
                    call(cls, plat, t, ctx)
    ctx.sample("mangle", dict(cls=cls, platform=plat, text=VALID[cls][0][:20]))


NAMED_PORTS = [20, 21, 23, 25, 110, 179, 194, 512, 513, 515]


def _long_valid(platform, ctx):
    """Valid lines of growing length (40..160 characters) whose rendering is longer or shorter
    than the input (numbers <-> names, prefix <-> wildcard): any length limit must hold for the
    rendering too."""
    srcs = ["any", "host 10.123.123.123", "10.123.123.0 0.0.0.255", "10.123.123.0/24"]
    for src, dst in product(srcs, repeat=2):
        for ks in range(0, 11):
            for kd in (0, 1, 5, 10) if ks not in (0, 10) else range(0, 11):
                sp = ("eq " + " ".join(map(str, NAMED_PORTS[:ks])) + " ") if ks else ""
                dp = (" eq " + " ".join(map(str, NAMED_PORTS[:kd]))) if kd else ""
                for tail in ("", " log", " ack syn log-input"):
                    for seq in ("", "4294967295 "):
                        call("Ace", platform, f"{seq}permit tcp {src} {sp}{dst}{dp}{tail}", ctx)
    for n in range(80, 125):
        call("Remark", platform, "remark " + "x" * n, ctx)
        call("Remark", platform, "10remark " + "y " * (n // 2), ctx)
        call("Acl_body", platform, "remark " + "z" * n, ctx)
        call("Acl", platform, "ip access-list extended " + "N" * n + "\n permit ip any any", ctx)
        call("Address", platform, "object-group " + "G" * n, ctx)
    ctx.sample("long_valid", dict(platform=platform))


def config_call(func, platform, text, ctx):
    import cisco_acl

    ctx.ev()
    case = dict(kind="config_call", func=func, platform=platform, text=text)
    try:
        with cpu_alarm(3.0):
            objs = getattr(cisco_acl, func)(text, platform=platform)
    except (ValueError, TypeError):
        ctx.out("documented_error")
        return
    except HarnessTimeout:
        ctx.viol(f"{func}:cpu_budget_exceeded", case, "more than 3 s CPU", "quick")
        return
    except Exception as ex:  # noqa
        ctx.viol(f"{func}:undocumented_exception:{type(ex).__name__}", case, repr(ex),
                 "objects or ValueError/TypeError")
        return
    ctx.out("config_returned")
    for o in objs:
        try:
            with cpu_alarm(2.0):
                type(o)(o.line, platform=o.platform)
        except Exception as ex:  # noqa
            ctx.viol(f"{func}:returned_object_rejects_own_text", case,
                     dict(line=_safe_line(o), error=repr(ex)), "accepted again")
            return
    if objs:
        ctx.nt((func, platform, text))


def _config(unit, ctx):
    lines = CONFIG_LINES[unit["lines"]]
    choices = INDENTS if ctx.tier == "thorough" else INDENTS[:3] + INDENTS[4:]
    for assign in product(choices, repeat=len(lines)):
        body = []
        for ind, ln in zip(assign, lines):
            body.append(ind + ln)
            if unit["bang"]:
                body.append("!")
        text = "\n".join(body)
        for func in ("acls", "aces", "addrgroups"):
            config_call(func, unit["platform"], text, ctx)
    ctx.sample("config", dict(unit, text=text))


def _config_misc(ctx):
    for text in ("", " ", "\n\n", "!", "!\n!\n", " indented first line\nnext", "\tx", "ip access-list",
                 "ip access-list extended", "ip access-list extended A", "object-group network",
                 "object-group network G", "interface", "interface E1\n ip access-group",
                 "interface E1\n ip access-group A", "interface E1\n ip access-group A in out",
                 "ip access-list extended A\n permit ip any any\ninterface E1\n ip access-group A\n ip access-group",
                 "interface E1\n ip access-group  A  in", "interface E1\n ip access-group\tA\tin",
                 "interface E1\n ip access-group A sideways", "ip access-list extended A\n permit ip any any\n"
                 "ip access-list extended A\n deny ip any any", " ip access-list extended A\n permit ip any any"):
        for plat in ("ios", "nxos"):
            for func in ("acls", "aces", "addrgroups"):
                config_call(func, plat, text, ctx)


# ----------------------------------------------------------- text-valued keyword arguments

OPTIONS = ["group_by", "indent", "version", "names", "name", "note", "sequence"]
OPT_TEXT = ["", " ", "= ", "=", "*** ", "+++ ", "** ", "(", ")", "[", "]", "? ", "\\", ".*", "$", "^",
            "|", "{1}", "=== (", "a|b", "(?P<x>", "\\1", "%s", "{}", "{0}", "\t", "\n", "x y", "１２",
            "15.2(4)M", "9.3(8)", "16", "A", "-mgmt", "0"]
OPT_BODIES = ["remark = web\npermit tcp any any eq 80\nremark *** db (x)\ndeny ip any any\nremark [a] + ?",
              "remark (\n10 permit ip any any\n20 remark \\\n30 deny ip any any"]


def option_call(target, platform, text, option, value, ctx):
    """One constructor / function call with arbitrary text in one text-valued keyword argument."""
    import cisco_acl

    ctx.ev()
    case = dict(kind="option_call", target=target, platform=platform, text=text, option=option,
                value=value)
    kw = {option: [value] if option == "names" else value}
    try:
        with cpu_alarm(3.0):
            res = getattr(cisco_acl, target)(text, platform=platform, **kw)
            objs = res if isinstance(res, list) else [res]
            for o in objs:
                _ = o.line
                if option == "sequence" and hasattr(o, "sequence"):
                    o.sequence = value  # the setter takes the same text
                    _ = o.line
                if target == "Acl" and option == "group_by":
                    o.ungroup()
                    o.group(value)
                    _ = o.line
    except (ValueError, TypeError):
        ctx.out("documented_error")
        return
    except HarnessTimeout:
        ctx.viol(f"{target}:{option}:cpu_budget_exceeded", case, "more than 3 s CPU", "quick")
        return
    except Exception as ex:  # noqa
        ctx.viol(f"{target}:{option}:undocumented_exception:{type(ex).__name__}", case, repr(ex),
                 "objects or ValueError/TypeError")
        return
    ctx.out("option_returned")
    ctx.nt((target, platform, option, value, text))


ITEM_TEXTS = ["10", " 20 ", "10 ", "0", "4294967296", "-1", "10 20", "permit", "10 permit", "remark",
              "10 remark", "host", "any", "permit ip any", "permit ip any any", "10 permit ip any any",
              "remark x", "", " ", "\n", "permit ip any any\npermit ip any any", "１２", "1e3", "0x10"]


def items_call(target, platform, items, ctx):
    """Lines given as a LIST of strings (items=[...] / the items setter) instead of one text."""
    import cisco_acl

    ctx.ev()
    case = dict(kind="items_call", target=target, platform=platform, items=list(items))
    cls, how = target.split(".")
    try:
        with cpu_alarm(3.0):
            if how == "ctor":
                obj = getattr(cisco_acl, cls)(name="A", platform=platform, items=list(items))
            else:
                seed = dict(Acl="ip access-list extended A\n permit ip any any", AceGroup="permit ip any any",
                            AddrGroup=("object-group network A\n host 10.0.0.1" if platform == "ios" else
                                       "object-group ip address A\n host 10.0.0.1"))[cls]
                obj = getattr(cisco_acl, cls)(seed, platform=platform)
                obj.items = list(items)
            _ = obj.line
    except (ValueError, TypeError):
        ctx.out("documented_error")
        return
    except HarnessTimeout:
        ctx.viol(f"{target}:items:cpu_budget_exceeded", case, "more than 3 s CPU", "quick")
        return
    except Exception as ex:  # noqa
        ctx.viol(f"{target}:items:undocumented_exception:{type(ex).__name__}", case, repr(ex),
                 "object or ValueError/TypeError")
        return
    ctx.out("items_returned")
    ctx.nt((target, platform, tuple(items)))


def _items(platform, ctx):
    member = ["host 10.0.0.1", "10 host 10.0.0.2", "10.0.0.0/24", "10.0.0.0 255.255.255.0", "group-object B"]
    for cls in ("Acl", "AceGroup", "AddrGroup"):
        texts = ITEM_TEXTS + (member if cls == "AddrGroup" else [])
        valid = "host 10.9.9.9" if cls == "AddrGroup" else "permit tcp any any eq 80"
        for how in ("ctor", "setter"):
            for t in texts:
                for items in ([t], [valid, t], [t, valid], [t, t]):
                    items_call(f"{cls}.{how}", platform, items, ctx)
    ctx.sample("items", dict(platform=platform, texts=len(ITEM_TEXTS)))


def _options(platform, option, ctx):
    head = "ip access-list extended A" if platform == "ios" else "ip access-list A"
    ghead = "object-group network G" if platform == "ios" else "object-group ip address G"
    for value in OPT_TEXT:
        for body in OPT_BODIES:
            acl_text = head + "\n" + "\n".join(" " + x for x in body.split("\n"))
            cfg = (f"{ghead}\n host 10.0.0.1\n{acl_text}\ninterface Ethernet1\n ip access-group A in\n"
                   f"{head}2\n permit ip any any")
            targets = [("Acl", acl_text), ("AceGroup", body), ("acls", cfg), ("aces", cfg),
                       ("addrgroups", cfg), ("AddrGroup", f"{ghead}\n host 10.0.0.1"),
                       ("Ace", "permit tcp any any eq 80"), ("Remark", "remark x"),
                       ("Address", "host 10.0.0.1"), ("AddressAg", "host 10.0.0.1")]
            for target, text in targets:
                option_call(target, platform, text, option, value, ctx)
    ctx.sample("options", dict(platform=platform, option=option, values=len(OPT_TEXT)))


# ---------------------------------------------------------------------------------------- sweeps


def sweeps():
    head = "ip access-list extended A\n "
    return [
        ("Ace", lambda n: "permit tcp any any eq " + "1 " * n),
        ("Ace", lambda n: "1 " * n + "permit ip any any"),
        ("Ace", lambda n: "permit ip " + "any " * n),
        ("Ace", lambda n: "permit tcp any any " + "eq 1 " * n),
        ("Ace", lambda n: "1" * n + " permit ip any any"),
        ("Acl", lambda n: head + "1 " * n + "permit ip any any"),
        ("Acl", lambda n: head + "permit ip any any\n " * n),
        ("Acl", lambda n: head + "\n" * n + " permit ip any any"),
        ("Acl", lambda n: head + "x " * n),
        ("AceGroup", lambda n: "1 " * n + "remark x"),
        ("AceGroup", lambda n: "remark x\n" * n),
        ("Remark", lambda n: "remark " + "x " * n),
        ("Remark", lambda n: "1 " * n + "remark x"),
        ("Option", lambda n: "ack " * n),
        ("Address", lambda n: "1" * n),
        ("Address", lambda n: "10.0.0.0 " * n),
        ("Address", lambda n: "object-group " + "x" * n),
        ("AddressAg", lambda n: "1 " * n + "host 10.0.0.1"),
        ("AddrGroup", lambda n: "object-group network G\n" + " host 10.0.0.1\n" * n),
        ("AddrGroup", lambda n: "object-group network G\n" + " foo\n" * n),
        ("Port", lambda n: "eq " + "1 " * n),
        ("Protocol", lambda n: "1" * n),
        ("Wildcard", lambda n: "10.0.0.0 " + "0." * n + "0"),
        ("acls", lambda n: ("ip access-list extended A\n permit ip any any\n" + "!\n" * n)),
        ("acls", lambda n: "\n".join(f"ip access-list extended A{i}\n permit ip any any" for i in range(n))),
        ("acls", lambda n: "ip access-list extended A\n" + " " * n + "permit ip any any"),
        ("acls", lambda n: "a\n" + "\n".join(" " * (i % 50 + 1) + "x" for i in range(n))),
        # every line indented one level deeper than the previous one (nesting depth n)
        ("acls", lambda n: "ip access-list extended A\n" + "\n".join(" " * (i + 1) + "permit ip any any" for i in range(n))),
        ("addrgroups", lambda n: "object-group network G\n" + "\n".join(" " * (i + 1) + "host 10.0.0.1" for i in range(n))),
        ("aces", lambda n: "permit ip any any\n" * n),
        ("addrgroups", lambda n: "\n".join(f"object-group network G{i}\n host 10.0.0.1" for i in range(n))),
    ]


def _sweep(idx, ctx):
    import cisco_acl

    name, make = sweeps()[idx]
    times = []
    for n in SWEEP_N:
        text = make(n)
        ctx.ev()
        case = dict(kind="sweep", idx=idx, ctor=name, n=n, text_head=text[:60])
        t0 = time.process_time()
        try:
            with cpu_alarm(30.0):
                if name in ("acls", "aces", "addrgroups"):
                    getattr(cisco_acl, name)(text, platform="ios")
                else:
                    getattr(cisco_acl, name)(text, platform="ios")
        except (ValueError, TypeError):
            pass
        except HarnessTimeout:
            ctx.viol(f"{name}:sweep_cpu_budget_exceeded", case, "more than 30 s CPU", "terminates quickly")
            return
        except Exception as ex:  # noqa
            kf = None
            if isinstance(ex, RecursionError) and name in ("acls", "addrgroups") and n >= 500 and \
                    "\n" + " " * 400 in text:
                kf = KF_NESTING
            ctx.viol(f"{name}:sweep_undocumented_exception:{type(ex).__name__}" + (":deep_nesting" if kf else ""),
                     case, repr(ex)[:300], "object or ValueError/TypeError", kf=kf)
            return
        times.append(time.process_time() - t0)
        ctx.nt(("sweep", idx, n))
    # growth: from n=1000 to n=5000 (x5) at most ~quadratic with slack
    if times[3] > 0.2 and times[4] > 40 * times[3]:
        ctx.viol(f"{name}:sweep_superquadratic_growth", dict(kind="sweep", idx=idx, ctor=name),
                 dict(zip(map(str, SWEEP_N), [round(t, 3) for t in times])), "at most ~quadratic")
        return
    ctx.out("sweep_ok")
    ctx.sample("sweep", dict(ctor=name, seconds=dict(zip(map(str, SWEEP_N), [round(t, 4) for t in times]))))
