"""C08 - port operators denote exactly the Cisco port sets; views write back losslessly.

(a) every operator x operand (quick: complete boundary set + seed constants; thorough: all
    1..65535), `range` for all ordered pairs of the boundary set, eq/neq with every ordered tuple of
    <= 3 distinct operands from an 8-value set plus a 10-operand tuple, tcp/udp, three platforms;
    codec: all 2^12 subsets of 12 consecutive ports at 5 offsets.
(b) histories: for every expression of the boundary alphabet every sequence of <= 3
    self-assignments through items / ports / sport (no merging).
"""
from __future__ import annotations

import itertools

from vf.refsem import sets as S

ID = "C08"
LEVEL = "model_checking"
RULE = ("(a) complete products of the stated operand sets per operator; non-trivial = operator other "
        "than single-operand eq, or a boundary operand (1, 2, 65534, 65535), distinct by "
        "(operator, operands, protocol, platform); codec: every subset of a 12-port window; "
        "(b) every sequence of <= 3 self-assignments over the three writable views per expression; "
        "states = distinct (expression, observable state) fingerprints, traces = complete "
        "assignment sequences replayed on a fresh Port")
ASSUMPTIONS = [
    "port-set definitions of vf.refsem.sets.port_expr_mask (C08's own wording), self-tested",
    "operands outside 1..65535 are outside C08 (they appear in C20 only)",
]
REQUIRED = ["set_exact", "codec_ok", "multi_operand_refused", "writeback_ok", "empty_set_expr",
            "reassign_ok"]

BOUNDARY = [1, 2, 3, 7, 8, 9, 15, 16, 17, 255, 256, 257, 32767, 32768, 65533, 65534, 65535]
SEEDC = [[80, 443, 8080], [22, 3389, 5060], [53, 1812, 20000], [123, 1024, 49152]]
TUPLE_SET = [1, 2, 3, 8, 80, 443, 65534, 65535]
OFFSETS = [1, 3, 10, 250, 65524]
CHUNK = 4096


def _singles(tier, seed):
    if tier == "thorough":
        return None  # everything
    return sorted(set(BOUNDARY) | set(SEEDC[seed % len(SEEDC)]))


def describe(tier, seed):
    return dict(single_operands="1..65535 (all)" if tier == "thorough" else _singles(tier, seed),
                range_pairs=f"{len(BOUNDARY)}^2 ordered pairs", tuple_set=TUPLE_SET,
                codec_offsets=OFFSETS, history_depth=3, views=["items", "ports", "sport"])


def units(tier, seed):
    out = []
    singles = _singles(tier, seed)
    for op in ("eq", "neq", "lt", "gt"):
        if singles is None:
            step = 16384 if op == "eq" else 512
            for lo in range(1, 65536, step):
                out.append(dict(kind="single", op=op, lo=lo, hi=min(lo + step - 1, 65535)))
        else:
            for i in range(0, len(singles), 4):
                out.append(dict(kind="single", op=op, values=singles[i:i + 4]))
    for a in BOUNDARY:
        out.append(dict(kind="range", a=a))
    for first in TUPLE_SET:
        for op in ("eq", "neq"):
            out.append(dict(kind="tuples", op=op, first=first))
    out.append(dict(kind="platforms"))
    for off in OFFSETS:
        for chunk in range(4):
            out.append(dict(kind="codec", offset=off, chunk=chunk))
    for i in range(len(_hist_exprs())):
        for first in ("items", "ports", "sport"):
            for held in (False, True):
                out.append(dict(kind="hist", expr=i, first=first, held=held))
    for i in range(len(CROSS)):
        out.append(dict(kind="hist_cross", first=i))
    for i in range(len(REASSIGN)):
        out.append(dict(kind="hist_reassign", first=i))
    return out


def run_unit(unit, ctx):
    k = unit["kind"]
    if k == "single":
        vals = unit.get("values") or range(unit["lo"], unit["hi"] + 1)
        for v in vals:
            for proto in ("tcp", "udp"):
                _expr(unit["op"], [v], proto, "ios", ctx)
        ctx.sample("single", f"{unit['op']} {list(vals)[0]}")
    elif k == "range":
        for b in BOUNDARY:
            _expr("range", [unit["a"], b], "tcp", "ios", ctx)
            _expr("range", [unit["a"], b], "udp", "nxos", ctx)
        ctx.sample("range", f"range {unit['a']} {BOUNDARY[0]}")
    elif k == "tuples":
        rest = [v for v in TUPLE_SET if v != unit["first"]]
        _expr(unit["op"], [unit["first"]], "tcp", "ios", ctx)
        for n in (1, 2):
            for combo in itertools.permutations(rest, n):
                _expr(unit["op"], [unit["first"], *combo], "tcp", "ios", ctx)
        # repeated operands (the tuple is not a set): meaning is still the listed ports
        _expr(unit["op"], [unit["first"], unit["first"]], "tcp", "ios", ctx)
        for other in rest[:3]:
            _expr(unit["op"], [unit["first"], unit["first"], other], "tcp", "ios", ctx)
            _expr(unit["op"], [other, unit["first"], other], "udp", "ios", ctx)
        if unit["first"] == TUPLE_SET[0]:
            _expr(unit["op"], [5, 10, 1, 7, 65535, 3, 2, 9, 4, 8], "udp", "ios", ctx)
        ctx.sample("tuple", f"{unit['op']} {unit['first']} {rest[0]} {rest[1]}")
    elif k == "platforms":
        _platforms(ctx)
    elif k == "codec":
        _codec(unit["offset"], unit["chunk"], ctx)
    elif k == "hist":
        _hist(_hist_exprs()[unit["expr"]], ctx, unit.get("first"), unit.get("held"))
    elif k == "hist_reassign":
        _reassign(unit["first"], ctx)
    elif k == "hist_cross":
        # write-back on one expression, then on another one IN THE SAME PROCESS (shared state
        # between Port objects must not exist), then on the first again
        a = CROSS[unit["first"]]
        for b in CROSS:
            if a == b:
                continue
            for view in ("ports", "sport", "items"):
                for line in (a, b, a):
                    ctx.ev()
                    ctx.nt_count()
                    _run_history(line, "ios", (view,), ctx)
        ctx.sample("history_cross", dict(first=a, then=CROSS[0]))


def replay(case, ctx):
    k = case["kind"]
    if k == "expr":
        _expr(case["op"], case["operands"], case["proto"], case["platform"], ctx)
    elif k == "codec":
        _codec_one(case["ports"], ctx)
    elif k == "history":
        _run_history(case["line"], case["platform"], case["views"], ctx, held=case.get("held", False))
    elif k == "platforms":
        _platforms(ctx)
    elif k == "reassign":
        _reassign(REASSIGN.index(case["a"]), ctx)


# ------------------------------------------------------------------------------------------------


def decode_sport(text: str) -> set:
    """Independent decoder of the compact range string "1,3-5"."""
    out = set()
    if not text:
        return out
    for part in text.split(","):
        if "-" in part:
            lo, hi = part.split("-")
            out.update(range(int(lo), int(hi) + 1))
        else:
            out.add(int(part))
    return out


def canonical_sport(ports: set) -> str:
    """Canonical run encoding: ascending, maximal runs, a-b for runs of length >= 2."""
    lst = sorted(ports)
    parts = []
    i = 0
    while i < len(lst):
        j = i
        while j + 1 < len(lst) and lst[j + 1] == lst[j] + 1:
            j += 1
        parts.append(str(lst[i]) if i == j else f"{lst[i]}-{lst[j]}")
        i = j + 1
    return ",".join(parts)


def _expr(op, operands, proto, platform, ctx):
    from cisco_acl import Port

    case = dict(kind="expr", op=op, operands=list(operands), proto=proto, platform=platform)
    line = f"{op} " + " ".join(map(str, operands))
    ctx.ev()
    try:
        port = Port(line, platform=platform, protocol=proto, port_nr=True)
    except (ValueError, TypeError) as ex:
        ctx.viol("Port:valid_expression_rejected", case, repr(ex), "accepted")
        return
    want_mask = S.port_expr_mask(op, operands)
    want = S.mask_to_list(want_mask)
    got = port.ports
    if len(set(operands)) != len(operands) and op in ("eq", "neq"):
        # repeated operands: C08 speaks of the port SET; a repeated element in the list is not
        # a different set
        got = sorted(set(got)) if op == "eq" else got
    if got != want:
        gs = set(got)
        ws = set(want)
        if gs != ws:
            ctx.viol(f"Port.ports:wrong_set:{op}", case,
                     dict(n=len(got), missing=sorted(ws - gs)[:5], extra=sorted(gs - ws)[:5]),
                     dict(n=len(want)))
        else:
            ctx.viol(f"Port.ports:not_ascending_or_duplicates:{op}", case, got[:10], want[:10])
        return
    if decode_sport(port.sport) != set(want):
        ctx.viol("Port.sport:decodes_to_other_set", case, port.sport[:80], canonical_sport(set(want))[:80])
    elif port.sport != canonical_sport(set(want)):
        ctx.out("sport_not_in_canonical_run_form")  # informational: C08 only requires the set
    if sorted(set(port.items)) != sorted(set(operands)) or port.operator != op:
        ctx.viol("Port.items:wrong", case, (port.operator, port.items), (op, sorted(operands)))
    if not want:
        ctx.out("empty_set_expr")
    if op != "eq" or len(operands) > 1 or operands[0] in (1, 2, 65534, 65535):
        ctx.nt((op, tuple(operands), proto, platform))
    ctx.out("set_exact")


def _platforms(ctx):
    """Single-operand operators on every platform; multi-operand eq/neq refused off IOS."""
    from cisco_acl import Port

    for platform in ("asa", "ios", "nxos"):
        for proto in ("tcp", "udp"):
            for op, operands in (("eq", [80]), ("neq", [80]), ("lt", [80]), ("gt", [80]),
                                 ("range", [80, 90]), ("range", [90, 80])):
                _expr(op, operands, proto, platform, ctx)
            if platform == "ios":
                continue
            for op in ("eq", "neq"):
                ctx.ev()
                case = dict(kind="platforms", op=op, platform=platform)
                try:
                    Port(f"{op} 80 443", platform=platform, protocol=proto)
                except ValueError:
                    ctx.out("multi_operand_refused")
                    continue
                ctx.viol("Port:multi_operand_accepted_off_ios", case, "accepted", "ValueError")
    for line in ("lt 1 2", "gt 1 2", "range 1", "range 1 2 3", "eq", "foo 1"):
        ctx.ev()
        try:
            Port(line, protocol="tcp")
        except ValueError:
            ctx.out("multi_operand_refused")
            continue
        ctx.viol("Port:wrong_operand_count_accepted", dict(kind="platforms", line=line),
                 "accepted", "ValueError")


def _codec_one(ports, ctx):
    from cisco_acl import helpers as h

    want = set(ports)
    ctx.ev()
    text = h.ports_to_string(list(ports))
    back = h.string_to_ports(text)
    case = dict(kind="codec", ports=sorted(want))
    if set(back) != want:
        ctx.viol("codec:roundtrip_set", case, dict(text=text, back=sorted(back)), sorted(want))
        return
    if len(back) != len(want):
        ctx.viol("codec:duplicates", case, back, sorted(want))
    if text != canonical_sport(want):
        ctx.out("codec_not_in_canonical_run_form")  # informational: C08 only requires the set
    if list(back) != sorted(want):
        ctx.out("codec_decoded_order_not_ascending")  # order is not part of C08; set equality is
    # reversed and shuffled input order must encode identically
    if h.ports_to_string(sorted(want, reverse=True)) != text:
        ctx.viol("codec:order_dependent", case, h.ports_to_string(sorted(want, reverse=True)), text)
    # a list that repeats an element denotes the same set and must encode to it
    if want:
        lst = sorted(want)
        dup = [lst[0]] + lst
        text2 = h.ports_to_string(dup)
        if set(h.string_to_ports(text2)) != want or decode_sport(text2) != want:
            ctx.viol("codec:repeated_element_changes_set", dict(case, input=dup), text2, sorted(want))
    if len(want) >= 2:
        ctx.nt(tuple(sorted(want)))
    ctx.out("codec_ok")


def _codec(offset, chunk, ctx):
    for bits in range(chunk * 1024, (chunk + 1) * 1024):
        ports = [offset + i for i in range(12) if (bits >> i) & 1]
        _codec_one(ports, ctx)
    ctx.sample("codec", dict(offset=offset, chunk=chunk))


# ------------------------------------------------------------------------------------- histories


# expressions whose port lists share first element, last element and length pairwise
CROSS = ["neq 3", "neq 4", "neq 7 9", "neq 8 9", "gt 7", "gt 8", "lt 9", "lt 8", "eq 10 26 30",
         "eq 10 28 30", "range 7 9", "range 8 9"]


REASSIGN = ["eq 80", "eq 80 443", "eq 1 2 3", "range 7 9", "range 100 200", "lt 9", "gt 65530", "neq 65535",
            "eq 65535", "lt 1", ""]


def _reassign(first, ctx):
    """One Port object re-pointed from expression A to expression B through each writable view:
    afterwards every view must be the one of a fresh Port(B)."""
    from cisco_acl import Port

    a = REASSIGN[first]
    if not a:
        return  # a Port born without expression has no protocol (library design); not C08's subject
    for b in REASSIGN:
        if a == b:
            continue
        fresh = Port(b, platform="ios", protocol="tcp", port_nr=True)
        want = _state(fresh)
        for via in ("line", "items", "ports", "sport"):
            if via != "line" and (not b or not a or a.split()[0] != b.split()[0]):
                continue  # items/ports/sport keep the operator: only same-operator targets
            ctx.ev()
            ctx.nt_count()
            case = dict(kind="reassign", a=a, b=b, via=via)
            try:
                port = Port(a, platform="ios", protocol="tcp", port_nr=True)
                _ = (port.line, port.ports, port.sport)
                if via == "line":
                    port.line = b
                elif via == "items":
                    port.items = list(fresh.items)
                elif via == "ports":
                    port.ports = list(fresh.ports)
                else:
                    port.sport = fresh.sport
            except Exception as ex:  # noqa
                ctx.viol(f"Port.{via}:reassignment_raises", case, repr(ex), want)
                continue
            ctx.trans()
            have = _state(port)
            if have != want:
                diff = {k: (have[k], want[k]) for k in have if have[k] != want[k] and k != "ports_digest"}
                ctx.viol(f"Port.{via}:state_after_reassignment_differs_from_fresh_object", case, diff,
                         "state of a fresh Port")
            else:
                ctx.out("reassign_ok")
    ctx.sample("reassign", dict(a=a, b=REASSIGN[(first + 1) % len(REASSIGN)]))


def _hist_exprs():
    out = []
    for line in ("eq 5 5", "eq 1 1 3", "eq 7 7 7 10", "neq 7 7", "eq 1", "eq 65535", "eq 80 443 8080", "eq 9 8 7", "neq 1", "neq 65535", "neq 7 9",
                 "lt 1", "lt 2", "lt 3", "lt 9", "lt 65535", "gt 1", "gt 7", "gt 65533",
                 "gt 65534", "gt 65535", "range 1 1", "range 7 9", "range 9 7", "range 1 65535",
                 "range 65534 65535", "range 15 17", "range 255 257"):
        out.append((line, "ios"))
    for line in ("eq 80", "neq 80", "lt 8", "gt 16", "range 8 16"):
        out.append((line, "nxos"))
    return out


def _state(port):
    return dict(line=port.line, operator=port.operator, items=list(port.items),
                nports=len(port.ports), ports_digest=hash(tuple(port.ports)), sport=port.sport)


def _run_history(line, platform, views, ctx, held=False):
    """held: the caller reads the three views ONCE and writes the very same objects back at every
    step (an assignment must not modify the object that is assigned)."""
    from cisco_acl import Port

    port = Port(line, platform=platform, protocol="tcp", port_nr=True)
    want = _state(port)
    case = dict(kind="history", line=line, platform=platform, views=list(views), held=held)
    own = dict(items=port.items, ports=port.ports, sport=port.sport)
    snap = dict(items=list(own["items"]), ports=list(own["ports"]), sport=own["sport"])
    for i, view in enumerate(views):
        try:
            if held:
                setattr(port, view, own[view])
                now = dict(items=list(own["items"]), ports=list(own["ports"]), sport=own["sport"])
                if now != snap:
                    ctx.viol(f"Port.{view}:assignment_modifies_the_assigned_object", dict(case, step=i),
                             {k: now[k][:6] for k in now if now[k] != snap[k]},
                             {k: snap[k][:6] for k in now if now[k] != snap[k]})
                    return
            elif view == "items":
                port.items = port.items
            elif view == "ports":
                port.ports = port.ports
            else:
                port.sport = port.sport
        except Exception as ex:  # noqa - a self-assignment must not fail at all
            ctx.viol(f"Port.{view}:self_assignment_raises", dict(case, step=i), repr(ex),
                     "state unchanged")
            return
        ctx.trans()
        have = _state(port)
        ctx.state((line, platform, sorted(have.items())))
        if have != want:
            diff = {k: (have[k], want[k]) for k in have if have[k] != want[k] and k != "ports_digest"}
            ctx.viol(f"Port.{view}:self_assignment_changes_state", dict(case, step=i), diff,
                     "state unchanged")
            return
    ctx.out("writeback_ok")
    ctx.trace()


def _hist(expr, ctx, first=None, held=None):
    line, platform = expr
    for n in (1, 2, 3):
        for views in itertools.product(("items", "ports", "sport"), repeat=n):
            if first is not None and views[0] != first:
                continue
            if held in (None, False):
                ctx.ev()
                ctx.nt_count()
                _run_history(line, platform, views, ctx)
            if n >= 2 and held in (None, True):
                ctx.ev()
                _run_history(line, platform, views, ctx, held=True)
    ctx.sample("history", dict(line=line, views=["ports", "sport", "items"]))
