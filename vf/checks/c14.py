"""C14 - collapsing addresses preserves the covered address set exactly.

All lists of length <= L (4 quick / 5 thorough) over the 15 blocks of a /29 tree plus 0.0.0.0/0,
0.0.0.0/1, 128.0.0.0/1 (18 items), for both wrappers and both platforms, inputs carrying notes;
refusal of non-contiguous wildcards and foreign objects at every list position.
"""
from __future__ import annotations

from itertools import product

from vf.gen import alpha as G
from vf.refsem import sets as S

ID = "C14"
LEVEL = "exploration"
RULE = ("every list (order and repetition matter) of the stated length over the 18-block alphabet; "
        "non-trivial = distinct (class, platform, list) whose output has fewer elements than the "
        "input (something was merged or dropped)")
ASSUMPTIONS = ["exact union comparison by cube cover; element count by disjoint decomposition"]
REQUIRED = ["merged_or_dropped", "unchanged_length", "refused_nc", "refused_foreign", "relined_ok", "repointed_group_reference", "linked_ok"]


def blocks(seed):
    base = G.window(seed) + 8 * (1 + seed % 7)  # a /29 inside the window
    out = []
    for ln in (29, 30, 31, 32):
        size = 1 << (32 - ln)
        for off in range(0, 8, size):
            out.append((base + off, ln))
    out += [(0, 0), (0, 1), (0x80000000, 1)]
    return out


def _L(tier):
    """Full alphabet up to this length; one more over the 8-block sub-alphabet SUB."""
    return 3 if tier == "quick" else 4


SUB = [0, 1, 2, 3, 4, 7, 8, 9]  # /29, both /30, two /31, three /32: chains of merges


def describe(tier, seed):
    return dict(max_len_full_alphabet=_L(tier), max_len_sub_alphabet=_L(tier) + 1, sub_alphabet=SUB,
                blocks=[f"{S.int2ip(n)}/{ln}" for n, ln in blocks(seed)])


def units(tier, seed):
    out = []
    n = len(blocks(seed))
    for cls in ("Address", "AddressAg"):
        for plat in ("ios", "nxos"):
            out.append(dict(kind="short", cls=cls, platform=plat))
            for a in range(n):
                for b in range(n):
                    out.append(dict(kind="lists", cls=cls, platform=plat, first=[a, b]))
            out.append(dict(kind="refuse", cls=cls, platform=plat))
            out.append(dict(kind="relined", cls=cls, platform=plat))
            out.append(dict(kind="linked", cls=cls, platform=plat))
    out.sort(key=lambda u: u["kind"] != "short")
    return out


def _spell(cls, platform, net, ln, variant):
    ip = S.int2ip(net)
    wild = (1 << (32 - ln)) - 1 if ln < 32 else 0
    if cls == "Address":
        forms = [f"{ip}/{ln}", f"{ip} {S.int2ip(wild)}"]
        if ln == 32:
            forms.append(f"host {ip}")
        if ln == 0:
            forms.append("any")
        return forms[variant % len(forms)]
    if ln == 32:
        return [f"host {ip}", f"{ip}/32"][variant % 2]
    if platform == "ios":
        if ln == 0:
            return None  # "0.0.0.0 0.0.0.0" is not a valid IOS member
        return [f"{ip} {S.int2ip(~wild & S.ALL32)}", f"{ip}/{ln}"][variant % 2]
    return [f"{ip}/{ln}", f"{ip} {S.int2ip(wild)}"][variant % 2]


def _check(cls, platform, idxs, ctx):
    from cisco_acl import Address, AddressAg, address, address_ag

    klass, func = (Address, address.collapse) if cls == "Address" else (AddressAg, address_ag.collapse)
    blk = blocks(ctx.seed)
    texts = [_spell(cls, platform, *blk[i], variant=i + k) for k, i in enumerate(idxs)]
    if any(t is None for t in texts):
        return
    ctx.ev()
    case = dict(kind="list", cls=cls, platform=platform, idxs=list(idxs), texts=texts)
    try:
        objs = [klass(t, platform=platform, note=f"n{k}") for k, t in enumerate(texts)]
        before = [(o.line, o.note, o.uuid) for o in objs]
        out = func(objs)
    except Exception as ex:  # noqa
        want = tuple(S.prefix_cube(*blk[i]) for i in idxs)
        kf = None
        if (cls == "AddressAg" and platform == "ios" and isinstance(ex, ValueError)
                and "'0.0.0.0 0.0.0.0' is denied" in str(ex) and S.addr_subset((S.ANY_CUBE,), want)):
            kf = "C14:AddressAg.collapse:ios:result_would_be_0.0.0.0/0"
        ctx.viol(f"{cls}.collapse:exception" + (":ios_any" if kf else ""), case, repr(ex),
                 "collapsed list", kf=kf)
        return
    want = tuple(S.prefix_cube(*blk[i]) for i in idxs)
    got = []
    bad = {}
    for o in out:
        if not isinstance(o, klass) or o.platform != platform:
            bad["kind_or_platform"] = (type(o).__name__, o.platform)
        if o.note not in ("", None):
            bad["note"] = repr(o.note)
        if o.ipnet is None:
            bad["not_contiguous"] = o.line
            continue
        got.append((int(o.ipnet.network_address), o.ipnet.prefixlen))
    cubes = tuple(S.prefix_cube(n, ln) for n, ln in got)
    if not S.addr_equal(cubes, want):
        lost = not S.addr_subset(want, cubes)
        bad["address_set"] = ("lost addresses" if lost else "gained addresses",
                              [f"{S.int2ip(n)}/{ln}" for n, ln in got])
    if len(out) > len(idxs):
        bad["more_elements_than_input"] = (len(out), len(idxs))
    if got != sorted(got):
        bad["not_sorted"] = got
    if [(o.line, o.note, o.uuid) for o in objs] != before:
        bad["input_modified"] = [(o.line, o.note) for o in objs]
    if any(o is i for o in out for i in objs) or len({id(o) for o in out}) != len(out):
        bad["result_aliases_an_input"] = [o.line for o in out if any(o is i for i in objs)]
    if bad:
        ctx.viol(f"{cls}.collapse:" + "+".join(sorted(bad)), case, bad,
                 [f"{S.int2ip(blk[i][0])}/{blk[i][1]}" for i in idxs])
        return
    if len(out) < len(idxs):
        ctx.out("merged_or_dropped")
        ctx.nt((cls, platform, tuple(idxs)))
    else:
        ctx.out("unchanged_length")


def run_unit(unit, ctx):
    cls, plat = unit["cls"], unit["platform"]
    n = len(blocks(ctx.seed))
    if unit["kind"] == "short":
        _check_empty(cls, plat, ctx)
        for ln in (1, 2):
            for idxs in product(range(n), repeat=ln):
                _check(cls, plat, idxs, ctx)
        ctx.sample("list", dict(cls=cls, platform=plat, idxs=[0, 3]))
    elif unit["kind"] == "lists":
        first = tuple(unit["first"])
        for ln in range(3, _L(ctx.tier) + 1):
            for rest in product(range(n), repeat=ln - 2):
                _check(cls, plat, first + rest, ctx)
        if first[0] in SUB and first[1] in SUB:
            for rest in product(SUB, repeat=_L(ctx.tier) - 1):
                _check(cls, plat, first + rest, ctx)
    elif unit["kind"] == "relined":
        _relined(cls, plat, ctx)
    elif unit["kind"] == "linked":
        _linked(cls, plat, ctx)
    else:
        _refuse(cls, plat, ctx)


def replay(case, ctx):
    if case["kind"] == "list":
        _check(case["cls"], case["platform"], tuple(case["idxs"]), ctx)
    elif case["kind"] == "relined":
        _relined(case["cls"], case["platform"], ctx)
    elif case["kind"] == "linked":
        _linked(case["cls"], case["platform"], ctx)
    else:
        _refuse(case["cls"], case["platform"], ctx)


def _relined(cls, platform, ctx):
    """collapse([a, b]); a.line = <third block>; collapse([a, b]) - on the SAME objects."""
    from cisco_acl import Address, AddressAg, address, address_ag

    klass, func = (Address, address.collapse) if cls == "Address" else (AddressAg, address_ag.collapse)
    blk = blocks(ctx.seed)
    n = 15  # the /29 tree
    for i, j, k in product(range(n), repeat=3):
        if i == k:
            continue
        ti, tj, tk = (_spell(cls, platform, *blk[x], variant=0) for x in (i, j, k))
        if None in (ti, tj, tk):
            continue
        ctx.ev()
        case = dict(kind="relined", cls=cls, platform=platform, idxs=[i, j, k], texts=[ti, tj, tk])
        try:
            a, b = klass(ti, platform=platform), klass(tj, platform=platform)
            func([a, b])
            a.line = tk
            out = func([a, b])
            if (i + j + k) % 3 == 0:
                # an object born as a group reference WITH members, then re-pointed to a plain
                # address: it denotes the plain address now
                ref = _group_ref(cls, platform)
                if ref:
                    g = klass(ref, platform=platform, items=[ti])
                    g.line = tk
                    out2 = func([g, b])
                    got2 = tuple(S.prefix_cube(int(o.ipnet.network_address), o.ipnet.prefixlen)
                                 for o in out2)
                    if not S.addr_equal(got2, (S.prefix_cube(*blk[k]), S.prefix_cube(*blk[j]))):
                        ctx.viol(f"{cls}.collapse:stale_members_after_reassignment",
                                 dict(case, group_reference=ref), [o.line for o in out2], [tk, tj])
                        continue
                    ctx.out("repointed_group_reference")
        except Exception as ex:  # noqa
            ctx.viol(f"{cls}.collapse:relined_exception", case, repr(ex), "collapsed list")
            continue
        got = tuple(S.prefix_cube(int(o.ipnet.network_address), o.ipnet.prefixlen) for o in out)
        want = (S.prefix_cube(*blk[k]), S.prefix_cube(*blk[j]))
        if not S.addr_equal(got, want):
            ctx.viol(f"{cls}.collapse:stale_after_reassignment", case, [o.line for o in out], [tk, tj])
        else:
            ctx.out("relined_ok")
            ctx.nt((cls, platform, "relined", i, j, k))
    ctx.sample("relined", dict(cls=cls, platform=platform))


def _group_ref(cls, platform):
    if cls == "Address":
        return "object-group G" if platform == "ios" else "addrgroup G"
    return "group-object G" if platform == "ios" else None


def _linked(cls, platform, ctx):
    """Objects whose histories are linked (one built from the other's exported data incl. uuid, then
    re-pointed) are still different addresses: nothing may be dropped because identifiers agree."""
    from cisco_acl import Address, AddressAg, address, address_ag

    klass, func = (Address, address.collapse) if cls == "Address" else (AddressAg, address_ag.collapse)
    blk = blocks(ctx.seed)
    for i, j, k in product(range(7, 15), repeat=3):
        ti, tj, tk = (_spell(cls, platform, *blk[x], variant=0) for x in (i, j, k))
        if None in (ti, tj, tk) or len({i, j, k}) < 3:
            continue
        ctx.ev()
        case = dict(kind="linked", cls=cls, platform=platform, texts=[ti, tj, tk])
        try:
            a = klass(ti, platform=platform)
            b = klass(**a.data(uuid=True))
            b.line = tj
            c = klass(**dict(a.data(uuid=True), line=tk))
            out = func([a, b, c])
        except Exception as ex:  # noqa
            ctx.viol(f"{cls}.collapse:linked_exception", case, repr(ex), "collapsed list")
            continue
        got = tuple(S.prefix_cube(int(o.ipnet.network_address), o.ipnet.prefixlen) for o in out)
        want = tuple(S.prefix_cube(*blk[x]) for x in (i, j, k))
        if not S.addr_equal(got, want):
            ctx.viol(f"{cls}.collapse:objects_with_equal_identifiers_dropped", case, [o.line for o in out],
                     [ti, tj, tk])
        else:
            ctx.out("linked_ok")
    ctx.sample("linked", dict(cls=cls, platform=platform))


def _check_empty(cls, platform, ctx):
    from cisco_acl import address, address_ag

    func = address.collapse if cls == "Address" else address_ag.collapse
    ctx.ev()
    if func([]) != []:
        ctx.viol(f"{cls}.collapse:empty", dict(kind="refuse", cls=cls, platform=platform),
                 func([]), [])


def _refuse(cls, platform, ctx):
    from cisco_acl import Address, AddressAg, address, address_ag

    klass, func = (Address, address.collapse) if cls == "Address" else (AddressAg, address_ag.collapse)
    other = AddressAg if cls == "Address" else Address
    blk = blocks(ctx.seed)
    good = [klass(_spell(cls, platform, *blk[i], variant=0), platform=platform) for i in (1, 2, 5)]
    nc_text = f"{S.int2ip(G.window(ctx.seed))} 0.0.1.3"
    # the same lists with elements created under DIFFERENT limits (0 admits contiguous masks only)
    good0 = [klass(_spell(cls, platform, *blk[i], variant=0), platform=platform, max_ncwb=0) for i in (1, 2, 5)]
    foreign = [other("host 10.0.0.1", platform=platform), "10.0.0.0/24", None, 5]
    cases = []
    if not (cls == "AddressAg" and platform == "ios"):
        cases.append(("refused_nc", klass(nc_text, platform=platform)))
    for f in foreign:
        cases.append(("refused_foreign", f))
    for label, bad in cases:
        for pos in range(2 * (len(good) + 1)):
            base_ = good if pos <= len(good) else good0
            pos = pos if pos <= len(good) else pos - len(good) - 1
            lst = base_[:pos] + [bad] + base_[pos:]
            ctx.ev()
            ctx.nt((cls, platform, label, pos, repr(bad)))
            case = dict(kind="refuse", cls=cls, platform=platform, pos=pos, bad=repr(bad))
            try:
                res = func(lst)
            except TypeError:
                ctx.out(label)
                continue
            except Exception as ex:  # noqa
                ctx.viol(f"{cls}.collapse:wrong_exception", case, repr(ex), "TypeError")
                continue
            ctx.viol(f"{cls}.collapse:{label.replace('refused', 'accepted')}", case,
                     [getattr(o, 'line', o) for o in res], "TypeError")
    ctx.sample("refuse", dict(cls=cls, platform=platform))
