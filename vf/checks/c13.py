"""C13 - address containment answers equal true set containment.

All ordered pairs over an address alphabet (every prefix length of a nested chain, siblings, bases
with bits under the mask, non-contiguous masks incl. pairs that only bit algebra decides), all
spellings, both platforms, through Address.subnet_of, AddressAg.subnet_of, functions.subnet_of,
`member in member`, `member in AddrGroup` (all groups of <= 2/3 members), and Address objects that
carry group members (positive answer => containment of the unions).
"""
from __future__ import annotations

from itertools import combinations, product

from vf.gen import alpha as G
from vf.refsem import sets as S

ID = "C13"
LEVEL = "exploration"
RULE = ("ordered pairs of the address alphabet enumerated completely per API; non-trivial = distinct "
        "(api, platform, a, b) where the exact answer is 'contained' and a != b, or a non-contiguous "
        "wildcard is involved")
ASSUMPTIONS = ["cube ⊆ cube by bit algebra, cube ⊆ union by exact cover (self-tested)",
               "`in` may raise TypeError when a non-contiguous wildcard or a group reference is an "
               "operand (documented); any other exception is a violation"]
REQUIRED = ["true_contained", "false_not_contained", "nc_pair_contained", "group_member_in",
            "group_items_true", "relined_answer_changed", "sequence_ok"]


def addresses(seed):
    w = G.window(seed)
    point = w + 0x55
    out = []
    for ln in range(33):
        wild = (1 << (32 - ln)) - 1 if ln < 32 else 0
        out.append(G.mk(f"chain{ln}", point, wild))
    for ln in (31, 30, 25, 24, 23, 16, 8, 1):
        wild = (1 << (32 - ln)) - 1
        out.append(G.mk(f"sib{ln}", point ^ (1 << (32 - ln)), wild))  # sibling of chain[ln]
    out += [G.mk("host_w1", w + 1, 0), G.mk("host_ext", S.ip2int("172.16.5.9"), 0)]
    ncs = [0x00000103, 0x0000FF00, 0x000000FE, 0x80000000, 0x00FF00FF, 0x00000100, 0x00000101,
           0x00000302, 0x000001FF ^ 0x10, 0x0000FFFF ^ 0x0100, 0x40000003]
    for i, m in enumerate(ncs):
        out.append(G.mk(f"nc{i}", point, m))
        out.append(G.mk(f"nc{i}b", point ^ 0x00010000, m))
    out += [G.mk("nc_sub", point, 0x00000003), G.mk("nc_sup", point, 0x0000FF03),
            G.mk("nc_half", point | 0x100, 0x00000003)]
    return out


def window_addresses(seed, tier):
    """EVERY wildcard mask over a window of w bits (bits 6..), with a contiguous tail of 0 or 2 bits,
    on two bases that differ inside the window: the complete containment lattice of a small cube
    space (the answers depend on bit algebra only, so the window position is immaterial)."""
    w = 5 if tier == "quick" else 7
    point = G.window(seed) + 0x55
    out = []
    for m in range(1 << w):
        for tail in (0, 3):
            for bi, base in enumerate((point, point ^ (1 << 7))):
                out.append(G.mk(f"w{m:02x}t{tail}b{bi}", base, (m << 6) | tail))
    return out


def describe(tier, seed):
    adrs = addresses(seed)
    return dict(addresses=len(adrs), non_contiguous=sum(a.is_nc for a in adrs),
                window=S.int2ip(G.window(seed)),
                mask_window=dict(bits=5 if tier == "quick" else 7, addresses=len(window_addresses(seed, tier))),
                group_sizes=[1, 2] if tier == "quick" else [1, 2, 3])


def units(tier, seed):
    n = len(addresses(seed))
    out = []
    for plat in ("ios", "nxos"):
        for i in range(n):
            out.append(dict(kind="pairs", platform=plat, a=i))
        out.append(dict(kind="spellings", platform=plat))
        nw = len(window_addresses(seed, tier))
        for i in range(0, nw, 8):
            out.append(dict(kind="window", platform=plat, lo=i, hi=min(i + 8, nw)))
        if tier == "thorough":
            for i in range(n):
                out.append(dict(kind="spellings_all", platform=plat, a=i))
        for k in ([1, 2] if tier == "quick" else [1, 2, 3]):
            out.append(dict(kind="groups", platform=plat, k=k))
        out.append(dict(kind="cross_text", platform=plat))
        out.append(dict(kind="sequences", platform=plat))
        out.append(dict(kind="items", platform=plat))
        out.append(dict(kind="items_ordered", platform=plat))
        out.append(dict(kind="relined", platform=plat))
    return out


def run_unit(unit, ctx):
    if unit["kind"] == "pairs":
        adrs = addresses(ctx.seed)
        a = adrs[unit["a"]]
        for j, b in enumerate(adrs):
            sa = a.spellings(unit["platform"])
            sb = b.spellings(unit["platform"])
            _pair(unit["platform"], a, b, sa[(unit["a"] + j) % len(sa)][0],
                  sb[(unit["a"] + 2 * j) % len(sb)][0], ctx)
        ctx.sample("pair", dict(platform=unit["platform"], a=sa[0][0], b=sb[0][0]))
    elif unit["kind"] == "spellings":
        adrs = addresses(ctx.seed)
        sub = [adrs[i] for i in (0, 8, 24, 30, 32, 33, 36, 43, 44, 45, len(adrs) - 3, len(adrs) - 2)]
        for a, b in product(sub, repeat=2):
            for (ta, _), (tb, _) in product(a.spellings(unit["platform"]), b.spellings(unit["platform"])):
                _pair(unit["platform"], a, b, ta, tb, ctx)
    elif unit["kind"] == "window":
        wa = window_addresses(ctx.seed, ctx.tier)
        plat = unit["platform"]
        for a in wa[unit["lo"]:unit["hi"]]:
            for b in wa:
                _pair(plat, a, b, a.spellings(plat)[0][0], b.spellings(plat)[0][0], ctx)
        ctx.sample("window", dict(platform=plat, a=a.spellings(plat)[0][0], n=len(wa)))
    elif unit["kind"] == "spellings_all":
        adrs = addresses(ctx.seed)
        a = adrs[unit["a"]]
        for b in adrs:
            for (ta, _), (tb, _) in product(a.spellings(unit["platform"]), b.spellings(unit["platform"])):
                _pair(unit["platform"], a, b, ta, tb, ctx)
    elif unit["kind"] == "cross_text":
        _cross_text(unit["platform"], ctx)
    elif unit["kind"] == "sequences":
        _sequences(unit["platform"], ctx)
    elif unit["kind"] == "groups":
        _groups(unit, ctx)
    elif unit["kind"] == "items_ordered":
        _items_ordered(unit, ctx)
    elif unit["kind"] == "relined":
        _relined(unit, ctx)
    else:
        _items(unit, ctx)


def replay(case, ctx):
    if case["kind"] == "pair":
        a = G.mk("a", *case["a_cube"])
        b = G.mk("b", *case["b_cube"])
        _pair(case["platform"], a, b, case["a"], case["b"], ctx)
    elif case["kind"] == "group":
        _group_case(case["platform"], G.mk("x", *case["x_cube"]),
                    [G.mk("m", *c) for c in case["member_cubes"]], ctx)
    else:
        _items(dict(platform=case["platform"]), ctx)


def _ag_spelling(adr, platform):
    """Native member spelling for AddressAg, None if the address cannot be a member there."""
    (base, wild), = adr.cubes
    if wild == 0:
        return f"host {S.int2ip(base)}"
    contiguous = wild & (wild + 1) == 0
    if platform == "ios":
        if not contiguous or wild == S.ALL32:
            return None
        return f"{S.int2ip(base)} {S.int2ip(~wild & S.ALL32)}"
    if contiguous:
        return f"{S.int2ip(base)}/{32 - bin(wild).count('1')}"
    return f"{S.int2ip(base)} {S.int2ip(wild)}"


def _pair(platform, a, b, ta, tb, ctx):
    """Is a ⊆ b ?  through every API."""
    from cisco_acl import Address, AddressAg
    from cisco_acl import functions as F

    want = S.cube_subset(a.cubes[0], b.cubes[0])
    case = dict(kind="pair", platform=platform, a=ta, b=tb, a_cube=list(a.cubes[0]),
                b_cube=list(b.cubes[0]))
    oa, ob = Address(ta, platform=platform), Address(tb, platform=platform)
    apis = [("Address.subnet_of", lambda: oa.subnet_of(ob)),
            ("functions.subnet_of", lambda: F.subnet_of(top=ob, bottom=oa))]
    sa, sb = _ag_spelling(a, platform), _ag_spelling(b, platform)
    if sa and sb:
        ga, gb = AddressAg(sa, platform=platform), AddressAg(sb, platform=platform)
        apis.append(("AddressAg.subnet_of", lambda: ga.subnet_of(gb)))
        apis.append(("functions.subnet_of(AddressAg)", lambda: F.subnet_of(top=gb, bottom=ga)))
        apis.append(("member in member", lambda: ga in gb))
    snap = [o.line for o in (oa, ob)]
    for name, call in apis:
        ctx.ev()
        try:
            got = call()
            if [o.line for o in (oa, ob)] != snap:
                ctx.viol(f"{name}:operand_modified", case, [o.line for o in (oa, ob)], snap)
                return
        except TypeError as ex:
            if name == "member in member" and (a.is_nc or b.is_nc):
                ctx.out("in_refused_for_nc")
                continue
            ctx.viol(f"{name}:exception", case, repr(ex), want)
            continue
        except Exception as ex:  # noqa
            ctx.viol(f"{name}:exception", case, repr(ex), want)
            continue
        if bool(got) != want:
            ctx.viol(f"{name}:wrong_answer" + (":false_positive" if got else ":false_negative"),
                     case, got, want)
    if want:
        ctx.out("true_contained")
        if a.cubes != b.cubes:
            ctx.nt((platform, ta, tb))
        if a.is_nc and b.is_nc:
            ctx.out("nc_pair_contained")
    else:
        ctx.out("false_not_contained")
        if a.is_nc or b.is_nc:
            ctx.nt((platform, ta, tb))


def _group_case(platform, x, members, ctx):
    from cisco_acl import AddrGroup, AddressAg

    sx = _ag_spelling(x, platform)
    sm = [_ag_spelling(m, platform) for m in members]
    if not sx or not all(sm) or x.is_nc or any(m.is_nc for m in members):
        return
    want = any(S.cube_subset(x.cubes[0], m.cubes[0]) for m in members)
    ctx.ev()
    case = dict(kind="group", platform=platform, x=sx, members=sm, x_cube=list(x.cubes[0]),
                member_cubes=[list(m.cubes[0]) for m in members])
    head = "object-group network G" if platform == "ios" else "object-group ip address G"
    try:
        grp = AddrGroup(head + "\n" + "\n".join(" " + s for s in sm), platform=platform)
        got = AddressAg(sx, platform=platform) in grp
    except Exception as ex:  # noqa
        ctx.viol("member in AddrGroup:exception", case, repr(ex), want)
        return
    if bool(got) != want:
        ctx.viol("member in AddrGroup:wrong_answer", case, got, want)
    if want:
        ctx.out("group_member_in")
        ctx.nt((platform, sx, tuple(sm)))
    # the candidate built for the OTHER platform ("A.B.C.D M.M.M.M" is a mask on IOS, a wildcard
    # on NX-OS): an answer, if one is given, must be about the sets the two objects denote
    other = "nxos" if platform == "ios" else "ios"
    for text, cube in _foreign_candidates(x, other):
        ctx.ev()
        try:
            got2 = AddressAg(text, platform=other) in grp
        except (TypeError, ValueError):
            ctx.out("cross_platform_in_refused")
            continue
        except Exception as ex:  # noqa
            ctx.viol("member in AddrGroup:cross_platform_exception", dict(case, candidate=text), repr(ex),
                     "bool or TypeError")
            continue
        want2 = any(S.cube_subset(cube, m.cubes[0]) for m in members)
        if bool(got2) != want2:
            ctx.viol("member in AddrGroup:cross_platform_wrong_answer",
                     dict(case, candidate=text, candidate_platform=other), got2, want2)
        else:
            ctx.out("cross_platform_in_ok")


def _sequences(plat, ctx):
    """Two queries in a row on the SAME objects (a query must leave nothing behind): x against
    partner p1, then x against partner p2, as bottom and as top, through subnet_of and through
    `in` on one group object; the caller also edits a returned ipnets() list in between."""
    from cisco_acl import AddrGroup, Address, AddressAg
    from cisco_acl import functions as F

    adrs = {a.label: a for a in addresses(ctx.seed)}
    xs = [adrs[k] for k in ("nc0", "nc1", "nc5", "nc_sup", "chain24", "chain30", "nc7")]
    partners = [adrs[k] for k in ("chain32", "chain30", "chain24", "chain23", "sib24", "nc_sub", "nc5",
                                  "host_w1", "nc0b", "nc_half")]
    for x in xs:
        for p1 in partners:
            for p2 in partners:
                for first in ("bottom", "top", "edit"):
                    ctx.ev()
                    tx, t1, t2 = (o.spellings(plat)[0][0] for o in (x, p1, p2))
                    case = dict(kind="sequence", platform=plat, x=tx, first=first, p1=t1, p2=t2)
                    try:
                        ox, o1, o2 = (Address(t, platform=plat) for t in (tx, t1, t2))
                        if first == "bottom":
                            ox.subnet_of(o1)
                        elif first == "top":
                            F.subnet_of(top=ox, bottom=o1)
                        else:
                            lst = ox.ipnets()
                            if len(lst) > 1:
                                lst.pop()
                        got = (ox.subnet_of(o2), o2.subnet_of(ox), o1.subnet_of(o2))
                    except Exception as ex:  # noqa
                        ctx.viol("sequence:exception", case, repr(ex), "answers")
                        continue
                    want = (S.cube_subset(x.cubes[0], p2.cubes[0]), S.cube_subset(p2.cubes[0], x.cubes[0]),
                            S.cube_subset(p1.cubes[0], p2.cubes[0]))
                    if tuple(map(bool, got)) != want:
                        ctx.viol("sequence:second_query_differs_from_a_fresh_one", case, got, want)
                    else:
                        ctx.out("sequence_ok")
    # a group Address whose members are edited IN PLACE between two queries
    ref = "object-group G" if plat == "ios" else "addrgroup G"
    mems = [adrs[k] for k in ("chain24", "sib24", "chain30", "host_w1", "nc_sub")]
    probes = [adrs[k] for k in ("chain32", "chain30", "sib25", "host_w1", "chain24")]
    for m1 in mems:
        for m2 in mems:
            for pr in probes:
                for edit in ("member.line", "del", "append", "member.prefix"):
                    ctx.ev()
                    t1, t2, tp = (o.spellings(plat)[0][0] for o in (m1, m2, pr))
                    case = dict(kind="sequence_members", platform=plat, first_member=t1, then=t2, probe=tp,
                                edit=edit)
                    if edit == "member.prefix" and (m2.is_nc or m2.cubes[0][1] == S.ALL32):
                        continue
                    try:
                        g = Address(ref, platform=plat, items=[t1])
                        p_ = Address(tp, platform=plat)
                        p_.subnet_of(g)
                        g.ipnets()
                        if edit == "member.line":
                            g.items[0].line = t2
                            now = [m2]
                        elif edit == "member.prefix":
                            (b_, w_), = m2.cubes
                            g.items[0].prefix = f"{S.int2ip(b_)}/{32 - bin(w_).count('1')}"
                            now = [m2]
                        elif edit == "del":
                            g.items.append(Address(t2, platform=plat))
                            del g.items[0]
                            now = [m2]
                        else:
                            g.items.append(Address(t2, platform=plat))
                            now = [m1, m2]
                        got = (p_.subnet_of(g), g.subnet_of(Address("any", platform=plat)))
                    except Exception as ex:  # noqa
                        ctx.viol("sequence_members:exception", case, repr(ex), "answers")
                        continue
                    want = (any(S.cube_subset(pr.cubes[0], m.cubes[0]) for m in now), True)
                    if tuple(map(bool, got)) != want:
                        ctx.viol("sequence_members:answer_follows_the_old_members", case, got, want)
                    else:
                        ctx.out("sequence_ok")
    # `in` on one group object, twice
    pool = [a for a in (adrs[k] for k in ("chain24", "sib24", "chain30", "host_w1", "chain16", "host_ext"))
            if _ag_spelling(a, plat)]
    cands = [a for a in (adrs[k] for k in ("chain32", "chain30", "chain25", "host_w1", "sib25", "host_ext"))
             if _ag_spelling(a, plat)]
    head = "object-group network G" if plat == "ios" else "object-group ip address G"
    from itertools import permutations as _perm

    for members in _perm(pool, 3):
        for c1 in cands:
            for c2 in cands:
                ctx.ev()
                case = dict(kind="sequence_in", platform=plat, members=[_ag_spelling(m, plat) for m in members],
                            c1=_ag_spelling(c1, plat), c2=_ag_spelling(c2, plat))
                try:
                    grp = AddrGroup(head + "\n" + "\n".join(" " + _ag_spelling(m, plat) for m in members),
                                    platform=plat)
                    before = grp.line
                    _ = AddressAg(_ag_spelling(c1, plat), platform=plat) in grp
                    got = AddressAg(_ag_spelling(c2, plat), platform=plat) in grp
                except Exception as ex:  # noqa
                    ctx.viol("sequence_in:exception", case, repr(ex), "answers")
                    continue
                want = any(S.cube_subset(c2.cubes[0], m.cubes[0]) for m in members)
                if bool(got) != want or grp.line != before:
                    ctx.viol("sequence_in:second_query_differs_or_group_modified", case,
                             dict(answer=got, group=grp.line), dict(answer=want, group=before))
                else:
                    ctx.out("sequence_ok")
    ctx.sample("sequences", dict(platform=plat))


def _cross_text(plat, ctx):
    """The SAME text "A.B.C.D M.M.M.M" as member of a group on one platform and as candidate on
    the other one (mask on IOS, wildcard bits on NX-OS): equal text is not equal meaning."""
    from cisco_acl import AddrGroup, AddressAg

    other = "nxos" if plat == "ios" else "ios"
    head = "object-group network G" if plat == "ios" else "object-group ip address G"

    def cube(platform, base, mask):
        if platform == "ios":  # subnet + mask
            return (base & mask, ~mask & S.ALL32)
        return (base & ~mask & S.ALL32, mask)  # address + wildcard bits

    for ln in range(1, 32):
        mask = (S.ALL32 << (32 - ln)) & S.ALL32
        for base in (0, G.window(ctx.seed) & mask, 0x0A000000 & mask):
            text = f"{S.int2ip(base)} {S.int2ip(mask)}"
            for extra in ([], ["host 10.255.255.1"]):
                ctx.ev()
                case = dict(kind="cross_text", platform=plat, text=text, length=ln, extra=extra)
                try:
                    grp = AddrGroup(head + "\n" + "\n".join(" " + t for t in [text] + extra), platform=plat)
                    cand = AddressAg(text, platform=other)
                except (ValueError, TypeError):
                    ctx.out("cross_text_not_buildable")
                    continue
                try:
                    got = cand in grp
                except (TypeError, ValueError):
                    ctx.out("cross_text_refused")
                    continue
                except Exception as ex:  # noqa
                    ctx.viol("member in AddrGroup:cross_text_exception", case, repr(ex), "bool or TypeError")
                    continue
                want = S.cube_subset(cube(other, base, mask), cube(plat, base, mask))
                if bool(got) != want:
                    ctx.viol("member in AddrGroup:cross_text_wrong_answer", case, got, want)
                else:
                    ctx.out("cross_text_ok")
    ctx.sample("cross_text", dict(platform=plat))


def _foreign_candidates(x, other):
    """Spellings of candidates on the other platform: the same set, and the text of the member
    spelling of this platform re-read under the other platform's rules."""
    out = []
    sx = _ag_spelling(x, other)
    if sx and not x.is_nc:
        out.append((sx, x.cubes[0]))
    (base, wild), = x.cubes
    if wild and wild & (wild + 1) == 0 and wild != S.ALL32:
        mask_text = f"{S.int2ip(base)} {S.int2ip(~wild & S.ALL32)}"
        if other == "ios":
            out.append((mask_text, (base, wild)))          # IOS reads A M as subnet + mask
        else:
            out.append((mask_text, (base & wild, ~wild & S.ALL32)))  # NX-OS reads A W as wildcard bits
    return out


def _groups(unit, ctx):
    adrs = addresses(ctx.seed)
    pool = [adrs[i] for i in (8, 16, 23, 24, 25, 30, 31, 32, 33, 34, 35, 36, 41, 42)]
    xs = [adrs[i] for i in (8, 24, 25, 30, 31, 32, 36, 37, 41, 42)]
    for members in combinations(pool, unit["k"]):
        for x in xs:
            _group_case(unit["platform"], x, list(members), ctx)
    ctx.sample("group", dict(platform=unit["platform"], k=unit["k"]))


def _relined(unit, ctx):
    """Two-step histories on ONE object: ask, re-point the member (line / prefix setter), ask
    again; the second answer must be the one a fresh object gives."""
    from cisco_acl import AddrGroup, Address, AddressAg

    plat = unit["platform"]
    adrs = [a for a in addresses(ctx.seed) if not a.is_nc and _ag_spelling(a, plat)]
    pool = [adrs[i] for i in (8, 16, 24, 25, 30, 32, 33, 36, 41)]
    head = "object-group network G" if plat == "ios" else "object-group ip address G"
    for a, b, m1, m2 in product(pool, pool, pool[:4], pool[4:7]):
        if a is b:
            continue
        ctx.ev()
        case = dict(kind="relined", platform=plat, first=_ag_spelling(a, plat), then=_ag_spelling(b, plat),
                    members=[_ag_spelling(m1, plat), _ag_spelling(m2, plat)])
        try:
            grp = AddrGroup(head + "\n " + _ag_spelling(m1, plat) + "\n " + _ag_spelling(m2, plat),
                            platform=plat)
            x = AddressAg(_ag_spelling(a, plat), platform=plat)
            first = x in grp
            x.line = _ag_spelling(b, plat)
            second = x in grp
            # the same with a member of the group re-pointed in place
            grp.items[0].line = _ag_spelling(a, plat)
            third = AddressAg(_ag_spelling(b, plat), platform=plat) in grp
            # Address.subnet_of after re-pointing the bottom
            y = Address(a.spellings(plat)[0][0], platform=plat)
            top = Address(m1.spellings(plat)[0][0], platform=plat)
            y.subnet_of(top)
            y.line = b.spellings(plat)[0][0]
            fourth = y.subnet_of(top)
            # an Address born as a group reference WITH members, then re-pointed to a plain
            # address: as bottom and as top it denotes the plain address now
            ref = "object-group G" if plat == "ios" else "addrgroup G"
            z = Address(ref, platform=plat, items=[a.spellings(plat)[0][0]])
            z.subnet_of(top)
            z.line = b.spellings(plat)[0][0]
            fifth = z.subnet_of(top)
            sixth = Address(m2.spellings(plat)[0][0], platform=plat).subnet_of(z)
            from cisco_acl import functions as F
            seventh = F.subnet_of(top=z, bottom=Address(m2.spellings(plat)[0][0], platform=plat))
        except Exception as ex:  # noqa
            ctx.viol("relined:exception", case, repr(ex), "answers")
            continue
        want1 = any(S.cube_subset(a.cubes[0], m.cubes[0]) for m in (m1, m2))
        want2 = any(S.cube_subset(b.cubes[0], m.cubes[0]) for m in (m1, m2))
        want3 = any(S.cube_subset(b.cubes[0], m.cubes[0]) for m in (a, m2))
        want4 = S.cube_subset(b.cubes[0], m1.cubes[0])
        want6 = S.cube_subset(m2.cubes[0], b.cubes[0])
        if (bool(fifth), bool(sixth), bool(seventh)) != (want4, want6, want6):
            ctx.viol("relined:stale_members_after_reassignment", case,
                     [bool(fifth), bool(sixth), bool(seventh)], [want4, want6, want6])
        elif (bool(first), bool(second), bool(third), bool(fourth)) != (want1, want2, want3, want4):
            ctx.viol("relined:stale_answer_after_reassignment", case,
                     [bool(first), bool(second), bool(third), bool(fourth)], [want1, want2, want3, want4])
        elif want1 != want2:
            ctx.out("relined_answer_changed")
            ctx.nt((plat, case["first"], case["then"], tuple(case["members"])))
    ctx.sample("relined", dict(platform=plat))


def _items_ordered(unit, ctx):
    """Groups as ORDERED member lists (every ordered selection of 1..3 members of a 6-address pool,
    members inside and outside the candidate tops in every position) against plain tops."""
    from itertools import permutations

    from cisco_acl import Address

    plat = unit["platform"]
    al = {a.label: a for a in G.addr_alphabet(ctx.seed)}
    pool = [al[k] for k in ("host1", "host2", "net30", "net25hi", "ext24", "host_ext")]
    tops = [al[k] for k in ("net24", "net30", "net8", "ext24", "any", "net25hi", "nc_low_run_plus_bit")]
    kw = "object-group" if plat == "ios" else "addrgroup"
    for n in (1, 2, 3):
        for members in permutations(pool, n):
            bottom = Address(f"{kw} G", platform=plat,
                             items=[m.spellings(plat)[0][0] for m in members])
            cubes = tuple(c for m in members for c in m.cubes)
            for top in tops:
                ctx.ev()
                case = dict(kind="items", platform=plat, a=[m.label for m in members], b=top.label)
                try:
                    got = bottom.subnet_of(Address(top.spellings(plat)[0][0], platform=plat))
                except Exception as ex:  # noqa
                    ctx.viol("Address.subnet_of(group items):exception", case, repr(ex), "bool")
                    continue
                exact = S.addr_subset(cubes, top.cubes)
                if got and not exact:
                    ctx.viol("Address.subnet_of(group items):false_positive", case, got, exact)
                # member-wise relation is also complete against a single-cube top
                if exact and not got:
                    ctx.viol("Address.subnet_of(group items):false_negative_single_top", case, got,
                             exact)
                if got:
                    ctx.out("group_items_true")
                    ctx.nt((plat, tuple(m.label for m in members), top.label))
    ctx.sample("items_ordered", dict(platform=plat))


def _items(unit, ctx):
    """Address objects that carry group members: True => containment of the unions."""
    from cisco_acl import Address

    plat = unit["platform"]
    groups = G.group_alphabet(ctx.seed)
    plain = [a for a in G.addr_alphabet(ctx.seed)]
    kw = "object-group" if plat == "ios" else "addrgroup"

    def build(adr, mode=0):
        if adr.group:
            # members given as strings, as dictionaries, as objects, or as a MIXTURE of the three
            texts = [m.spellings(plat)[0][0] for m in adr.members]
            forms = []
            for k, t in enumerate(texts):
                kind = (0, k % 3, (k + 1) % 3, 2 - k % 3)[mode]
                forms.append(t if kind == 0 else Address(t, platform=plat).data() if kind == 1
                             else Address(t, platform=plat))
            return Address(f"{kw} {adr.group}", platform=plat, items=forms)
        return Address(adr.spellings(plat)[0][0], platform=plat)

    for a, b in product(groups + plain, repeat=2):
        if not (a.group or b.group):
            continue
        ctx.ev()
        case = dict(kind="items", platform=plat, a=a.label, b=b.label)
        try:
            got = build(a).subnet_of(build(b))
            for mode in (1, 2, 3):
                if build(a, mode).subnet_of(build(b, mode)) != got:
                    ctx.viol("Address.subnet_of(group items):answer_depends_on_how_members_were_given",
                             dict(case, mode=mode), not got, got)
                    break
        except (TypeError, ValueError):
            ctx.out("items_refused")
            continue
        except Exception as ex:  # noqa
            ctx.viol("Address.subnet_of(group items):exception", case, repr(ex), "bool")
            continue
        exact = S.addr_subset(a.cubes, b.cubes) and bool(a.cubes)
        if got and not exact:
            ctx.viol("Address.subnet_of(group items):false_positive", case, got, exact)
        if got:
            ctx.out("group_items_true")
            ctx.nt((plat, a.label, b.label))
    ctx.sample("items", dict(platform=plat))
