"""C09 - port/protocol names are pure spelling of their standard numbers.

The domain is finite and enumerated completely in both tiers:
(platform asa/ios/nxos) x (version tables "", 15, 16, 9) x (tcp, udp) x port_nr x every number
1..65535, every table name; all 256 protocol numbers and every protocol name x platform x switch;
every module-level name table for the splitter vocabulary and for collisions.
"""
from __future__ import annotations

from vf.refsem import golden
from vf.refsem import sets as S

ID = "C09"
LEVEL = "exploration"
RULE = ("complete enumeration of (platform, version, protocol, port_nr, number 1..65535) and of "
        "every (table, name) row, every protocol number/name x platform x protocol_nr; a case is "
        "non-trivial when a name is involved (the number has a name in that configuration, or the "
        "input is a name); cases are distinct by construction (enumeration index)")
ASSUMPTIONS = [
    "golden name->number tables (vf/refsem/golden.py) are correct; cross-read against /etc/services",
    "a library name absent from the golden tables is counted as unverified, not as a violation",
]
REQUIRED = ["number_renders_name", "number_renders_digits", "name_ok", "proto_name_ok",
            "vocab_ace_ok", "platform_switch_ok", "generated_ok", "acl_level_ok"]
PLATFORMS = ("asa", "ios", "nxos")
VERSIONS = ("", "15.2(4)M", "16.9.6", "9.3(8)")
CHUNK = 8192
RESERVED = set(("eq", "gt", "lt", "neq", "range", "any", "host", "object-group", "addrgroup",
                "log", "log-input", "established", "permit", "deny", "remark", "fragments",
                "dscp", "precedence", "tos", "ttl", "time-range", "match-all", "match-any")
               ) | set(S.FLAG_NAMES)


def describe(tier, seed):
    return dict(platforms=PLATFORMS, versions=VERSIONS, numbers="1..65535 (all)",
                protocols="0..255 (all)", services_crosscheck=golden.services_crosscheck())


def units(tier, seed):
    out = [dict(kind="tables"), dict(kind="protocols"), dict(kind="platform_switch")]
    out += [dict(kind="generated", platform=p, proto=pr) for p in PLATFORMS for pr in ("tcp", "udp")]
    out += [dict(kind="acl_level", platform=p, version=v) for p in ("ios", "nxos") for v in VERSIONS]
    for plat in PLATFORMS:
        for ver in VERSIONS:
            for proto in ("tcp", "udp"):
                out.append(dict(kind="names", platform=plat, version=ver, proto=proto))
                for port_nr in (False, True):
                    for lo in range(1, 65536, CHUNK):
                        out.append(dict(kind="numbers", platform=plat, version=ver, proto=proto,
                                        port_nr=port_nr, lo=lo, hi=min(lo + CHUNK - 1, 65535)))
    return out


def run_unit(unit, ctx):
    kind = unit["kind"]
    if kind == "numbers":
        _numbers(unit, ctx)
    elif kind == "names":
        _names(unit, ctx)
    elif kind == "protocols":
        _protocols(ctx)
    elif kind == "tables":
        _tables(ctx)
    elif kind == "platform_switch":
        _platform_switch(ctx)
    elif kind == "generated":
        _generated(unit["platform"], unit["proto"], ctx)
    elif kind == "acl_level":
        _acl_level(unit["platform"], unit["version"], ctx)


def replay(case, ctx):
    kind = case["kind"]
    if kind == "number":
        _one_number(case["platform"], case["version"], case["proto"], case["port_nr"],
                    case["number"], ctx)
    elif kind == "name":
        _one_name(case["platform"], case["version"], case["proto"], case["name"], ctx)
    elif kind == "protocol":
        _protocols(ctx)
    elif kind == "platform_switch":
        _platform_switch(ctx)
    elif kind == "generated":
        _generated(case["platform"], case["proto"], ctx)
    elif kind == "acl_level":
        _acl_level(case["platform"], case["version"], ctx)
    else:
        _tables(ctx)


# ---------------------------------------------------------------------------------------------


def _cfg(platform, version, proto, port_nr=False):
    return dict(platform=platform, version=version, protocol=proto, port_nr=port_nr)


def _one_number(platform, version, proto, port_nr, n, ctx, table=None):
    from cisco_acl import Port
    from cisco_acl.port_name import PortName

    case = dict(kind="number", platform=platform, version=version, proto=proto, port_nr=port_nr,
                number=n)
    ctx.ev()
    if table is None:
        table = PortName(protocol=proto, platform=platform, version=version).names()
    try:
        port = Port(f"eq {n}", **_cfg(platform, version, proto, port_nr))
        if port.ports != [n] or port.items != [n]:
            ctx.viol("Port:number_value", case, dict(ports=port.ports[:5], items=port.items), [n])
            return
        line = port.line
        toks = line.split()
        if len(toks) != 2 or toks[0] != "eq":
            ctx.viol("Port:render_shape", case, line, f"eq <{n}|name>")
            return
        tok = toks[1]
        if tok.isdigit():
            ctx.out("number_renders_digits")
            if int(tok) != n:
                ctx.viol("Port:render_number", case, line, f"eq {n}")
        else:
            ctx.out("number_renders_name")
            ctx.nt_count()
            if port_nr:
                ctx.viol("Port:port_nr_ignored", case, line, f"eq {n}",
                         "numeric switch on but a name was rendered")
            gold = golden.PORTS[proto].get(tok)
            if gold is None:
                ctx.out("unverified_names")
            elif gold != n:
                ctx.viol("Port:render_wrong_name", case, line, f"name with golden number {n}")
            if tok not in table:
                ctx.viol("Port:render_name_not_in_table", case, line, sorted(table)[:5])
        back = Port(line, **_cfg(platform, version, proto, port_nr))
        if back.ports != [n]:
            ctx.viol("Port:reparse_differs", case, dict(line=line, ports=back.ports[:5]), [n])
    except (ValueError, TypeError) as ex:
        ctx.viol("Port:number_rejected", case, repr(ex), "accepted")


def _numbers(unit, ctx):
    from cisco_acl.port_name import PortName

    table = PortName(protocol=unit["proto"], platform=unit["platform"],
                     version=unit["version"]).names()
    for n in range(unit["lo"], unit["hi"] + 1):
        _one_number(unit["platform"], unit["version"], unit["proto"], unit["port_nr"], n, ctx,
                    table)
    ctx.sample("number", dict(unit, n=unit["lo"]))


def _one_name(platform, version, proto, name, ctx):
    from cisco_acl import Ace, Port
    from cisco_acl.port_name import PortName

    case = dict(kind="name", platform=platform, version=version, proto=proto, name=name)
    pn = PortName(protocol=proto, platform=platform, version=version)
    nr = pn.names()[name]
    ctx.ev()
    ctx.nt_count()
    gold = golden.PORTS[proto].get(name)
    if gold is None:
        ctx.out("unverified_names")
        gold = nr
    elif gold != nr:
        ctx.viol("table:wrong_number", case, nr, gold)
        return
    if not 1 <= nr <= 65535:
        ctx.viol("table:number_out_of_range", case, nr, "1..65535")
        return
    if name in RESERVED or name.isdigit() or " " in name:
        ctx.viol("table:name_collides_with_keyword", case, name, "not a keyword")
    for port_nr in (False, True):
        try:
            port = Port(f"eq {name}", **_cfg(platform, version, proto, port_nr))
        except (ValueError, TypeError) as ex:
            ctx.viol("Port:name_rejected", case, repr(ex), "accepted")
            return
        if port.ports != [gold]:
            ctx.viol("Port:name_value", case, port.ports[:5], [gold])
        line = port.line
        tok = line.split()[-1] if line else ""
        if port_nr and tok != str(gold):
            ctx.viol("Port:port_nr_text", case, line, f"eq {gold}")
        if not port_nr:
            # alias: first name wins; whatever name is chosen must map back to the same number
            back = Port(line, **_cfg(platform, version, proto, False))
            if back.ports != [gold]:
                ctx.viol("Port:alias_roundtrip", case, dict(line=line, ports=back.ports[:5]),
                         [gold])
    # the name must be split as a port (not as an option) in both positions of an ACE
    if True:
        pnum = "6" if proto == "tcp" else "17"
        for pos, text in (("dst", f"permit {pnum} any any eq {name} log"),
                          ("src", f"permit {pnum} any eq {name} any log"),
                          ("dst", f"permit {proto} any any eq {name} log"),
                          ("src", f"permit {proto} any eq {name} any log"),
                          ("dst+flag", f"permit {proto} any any eq {name} "
                                       + ("ack log" if proto == "tcp" else "log"))):
            ctx.ev()
            try:
                ace = Ace(text, platform=platform, version=version)
            except (ValueError, TypeError) as ex:
                ctx.viol("Ace:name_rejected", dict(case, pos=pos), repr(ex), "accepted")
                continue
            port = ace.srcport if pos == "src" else ace.dstport
            other = ace.dstport if pos == "src" else ace.srcport
            if port.ports != [gold] or other.ports or ace.option.logs != ["log"]:
                ctx.viol("Ace:name_split", dict(case, pos=pos, text=text),
                         dict(ports=port.ports[:5], other=other.ports[:5], logs=ace.option.logs,
                              flags=ace.option.flags), dict(ports=[gold], logs=["log"]))
            else:
                ctx.out("vocab_ace_ok")
    ctx.out("name_ok")
    ctx.sample("name", case)


def _names(unit, ctx):
    from cisco_acl.port_name import PortName

    pn = PortName(protocol=unit["proto"], platform=unit["platform"], version=unit["version"])
    for name in sorted(pn.names()):
        _one_name(unit["platform"], unit["version"], unit["proto"], name, ctx)


def _protocols(ctx):
    from cisco_acl import Ace, Protocol
    from cisco_acl import protocol as pr

    tables = dict(asa=pr.PROTOCOLS_ASA, ios=pr.PROTOCOLS_IOS, nxos=pr.PROTOCOLS_NXOS)
    all_names = set()
    for platform, table in tables.items():
        for name, nr in table.items():
            all_names.add(name)
            ctx.ev()
            gold = golden.PROTO.get(name)
            case = dict(kind="protocol", platform=platform, name=name)
            if gold is None:
                ctx.out("unverified_names")
            elif gold != nr:
                ctx.viol("proto_table:wrong_number", case, nr, gold)
            if name in RESERVED or name.isdigit():
                ctx.viol("proto_table:name_collides", case, name, "not a keyword")
    for platform in PLATFORMS:
        for protocol_nr in (False, True):
            for n in range(256):
                ctx.ev()
                case = dict(kind="protocol", platform=platform, protocol_nr=protocol_nr, number=n)
                try:
                    obj = Protocol(str(n), platform=platform, protocol_nr=protocol_nr)
                    if obj.number != n:
                        ctx.viol("Protocol:number_value", case, obj.number, n)
                        continue
                    line = obj.line
                    if not line.isdigit():
                        ctx.nt_count()
                        ctx.out("proto_number_renders_name")
                        if protocol_nr:
                            ctx.viol("Protocol:protocol_nr_ignored", case, line, str(n))
                        if golden.PROTO.get(line, n) != n:
                            ctx.viol("Protocol:render_wrong_name", case, line, n)
                        if line not in tables[platform]:
                            ctx.viol("Protocol:render_name_not_in_table", case, line, platform)
                    elif int(line) != n:
                        ctx.viol("Protocol:render_number", case, line, n)
                    back = Protocol(line, platform=platform, protocol_nr=protocol_nr)
                    if back.number != n:
                        ctx.viol("Protocol:reparse_differs", case, dict(line=line, nr=back.number), n)
                except (ValueError, TypeError) as ex:
                    ctx.viol("Protocol:number_rejected", case, repr(ex), "accepted")
            for name in sorted(all_names):
                ctx.ev()
                ctx.nt_count()
                case = dict(kind="protocol", platform=platform, protocol_nr=protocol_nr, name=name)
                gold = golden.PROTO.get(name)
                try:
                    obj = Protocol(name, platform=platform, protocol_nr=protocol_nr)
                except (ValueError, TypeError) as ex:
                    if name in tables[platform]:
                        ctx.viol("Protocol:name_rejected", case, repr(ex), "accepted")
                    continue
                if gold is not None and obj.number != gold:
                    ctx.viol("Protocol:name_value", case, obj.number, gold)
                    continue
                back = Protocol(obj.line, platform=platform, protocol_nr=protocol_nr)
                if back.number != obj.number:
                    ctx.viol("Protocol:name_roundtrip", case, back.number, obj.number)
                if protocol_nr and not obj.line.isdigit():
                    ctx.viol("Protocol:protocol_nr_text", case, obj.line, str(obj.number))
                ctx.out("proto_name_ok")
        # switches change text only: ACE level
        if platform == "asa":
            continue
        for name in sorted(tables[platform]):
            for protocol_nr in (False, True):
                for port_nr in (False, True):
                    ctx.ev()
                    case = dict(kind="protocol", platform=platform, name=name,
                                protocol_nr=protocol_nr, port_nr=port_nr, ace=True)
                    try:
                        ace = Ace(f"permit {name} any any", platform=platform,
                                  protocol_nr=protocol_nr, port_nr=port_nr)
                    except (ValueError, TypeError) as ex:
                        ctx.viol("Ace:proto_name_rejected", case, repr(ex), "accepted")
                        continue
                    if ace.protocol.number != golden.PROTO.get(name, ace.protocol.number):
                        ctx.viol("Ace:proto_switch_changes_number", case, ace.protocol.number,
                                 golden.PROTO.get(name))
    ctx.sample("protocol", dict(platform="ios", number=6))


ACL_OPS = ["none", "block.port_nr on/off", "block.protocol_nr on/off", "block.copy", "acl.copy",
           "acl.platform=same", "acl.platform=roundtrip", "acl.ungroup_ports", "acl.port_nr on/off",
           "acl.ungroup+group"]


def _acl_level(platform, version, ctx):
    """The version table is an ACL-wide setting: entries inside blocks (group_by) must render the
    names of THAT table after every object-level operation on the ACL or on one of its blocks."""
    from cisco_acl import Acl
    from cisco_acl.port_name import PortName

    tables = {p: PortName(protocol=p, platform=platform, version=version).names() for p in ("tcp", "udp")}
    union = {p: set(golden.PORTS[p].values()) for p in ("tcp", "udp")}
    head = "ip access-list extended A" if platform == "ios" else "ip access-list A"
    other = "nxos" if platform == "ios" else "ios"
    for proto in ("tcp", "udp"):
        numbers = sorted(union[proto])
        for op in ACL_OPS:
            ctx.ev()
            ctx.nt_count()
            case = dict(kind="acl_level", platform=platform, version=version, proto=proto, op=op)
            body = ["remark = a"] + [f"permit {proto} any any eq {n}" for n in numbers[::2]] + \
                   ["remark = b"] + [f"permit {proto} any eq {n} any" for n in numbers[1::2]]
            try:
                acl = Acl(head + "\n" + "\n".join(" " + b for b in body), platform=platform,
                          version=version, group_by="= ")
                if op.startswith("block."):
                    for blk in acl.items:
                        if op == "block.copy":
                            acl.items[acl.items.index(blk)] = blk.copy()
                        else:
                            attr = op.split(".")[1].split()[0]
                            setattr(blk, attr, True)
                            setattr(blk, attr, False)
                elif op == "acl.copy":
                    acl = acl.copy()
                elif op == "acl.platform=same":
                    acl.platform = platform
                elif op == "acl.platform=roundtrip":
                    acl.platform = other
                    acl.platform = platform
                elif op == "acl.ungroup_ports":
                    acl.ungroup_ports()
                elif op == "acl.port_nr on/off":
                    acl.port_nr = True
                    acl.port_nr = False
                elif op == "acl.ungroup+group":
                    acl.ungroup()
                    acl.group("= ")
                text = acl.line
                again = Acl(text, platform=platform, version=version, group_by="= ")
            except (ValueError, TypeError) as ex:
                ctx.viol("Acl:version_table:rejected", case, repr(ex), "ACL and its own text accepted")
                continue
            bad = None
            lines = [ln.split() for ln in text.split("\n")[1:] if " eq " in ln]
            if len(lines) != len(numbers) or again.line != text:
                bad = ("entries lost or text not stable on re-parse", len(lines), len(numbers))
            for toks, n in zip(lines, numbers[::2] + numbers[1::2]):
                tok = toks[toks.index("eq") + 1]
                if tok.isdigit():
                    if int(tok) != n:
                        bad = (" ".join(toks), n)
                elif tables[proto].get(tok) != n:
                    bad = (" ".join(toks), f"a name of {n} in the {platform}/{version or 'default'} table")
            if bad:
                ctx.viol("Acl:version_table:name_of_another_table", case, bad[0], bad[-1])
            else:
                ctx.out("acl_level_ok")
    ctx.sample("acl_level", dict(platform=platform, version=version))


def _generated(platform, proto, ctx):
    """range_ports()/range_protocols() render numbers too: the name they choose must come from the
    table of the requested platform, be read back there as the same number, and port_nr /
    protocol_nr must give digits."""
    from cisco_acl import Ace, range_ports, range_protocols
    from cisco_acl.port_name import PortName

    table = PortName(protocol=proto, platform=platform).names()
    numbers = sorted(set(golden.PORTS[proto].values()) | set(table.values()) | {1, 4000, 65535})
    for n in numbers:
        for side in ("srcports", "dstports"):
            for port_nr in (False, True):
                ctx.ev()
                ctx.nt_count()
                case = dict(kind="generated", platform=platform, proto=proto, number=n, side=side,
                            port_nr=port_nr)
                try:
                    lines = range_ports(**{side: str(n)}, line=f"permit {proto} any any",
                                        platform=platform, port_nr=port_nr)
                    if len(lines) != 1:
                        ctx.viol("range_ports:line_count", case, lines, "one line")
                        continue
                    toks = lines[0].split()
                    tok = toks[toks.index("eq") + 1]
                    if tok.isdigit():
                        if int(tok) != n:
                            ctx.viol("range_ports:number_changed", case, lines[0], n)
                            continue
                    elif port_nr:
                        ctx.viol("range_ports:port_nr_renders_name", case, lines[0], str(n))
                        continue
                    elif table.get(tok) != n:
                        ctx.viol("range_ports:name_not_in_platform_table", case, lines[0],
                                 f"a {platform} name of {n} or the number")
                        continue
                    ace = Ace(lines[0], platform=platform)
                    port = ace.srcport if side == "srcports" else ace.dstport
                    if port.ports != [n]:
                        ctx.viol("range_ports:reparse_differs", case, dict(line=lines[0],
                                                                           ports=port.ports[:5]), [n])
                        continue
                    ctx.out("generated_ok")
                except (ValueError, TypeError) as ex:
                    ctx.viol("range_ports:rejected", case, repr(ex), "a line accepted on the platform")
    if proto == "tcp":
        import cisco_acl.protocol as pr

        ptable = dict(asa=pr.PROTOCOLS_ASA, ios=pr.PROTOCOLS_IOS, nxos=pr.PROTOCOLS_NXOS)[platform]
        for n in range(256):
            for protocol_nr in (False, True):
                ctx.ev()
                ctx.nt_count()
                case = dict(kind="generated", platform=platform, proto=proto, protocol=n,
                            protocol_nr=protocol_nr)
                try:
                    lines = range_protocols(protocols=str(n), line="permit ip any any",
                                            platform=platform, protocol_nr=protocol_nr)
                    tok = lines[0].split()[1]
                    if len(lines) != 1:
                        ctx.viol("range_protocols:line_count", case, lines, "one line")
                    elif tok.isdigit() and int(tok) != n:
                        ctx.viol("range_protocols:number_changed", case, lines[0], n)
                    elif not tok.isdigit() and protocol_nr:
                        ctx.viol("range_protocols:protocol_nr_renders_name", case, lines[0], str(n))
                    elif not tok.isdigit() and (ptable.get(tok) != n or golden.PROTO.get(tok, n) != n):
                        ctx.viol("range_protocols:name_not_in_platform_table", case, lines[0], n)
                    elif Ace(lines[0], platform=platform).protocol.number != n:
                        ctx.viol("range_protocols:reparse_differs", case, lines[0], n)
                    else:
                        ctx.out("generated_ok")
                except (ValueError, TypeError) as ex:
                    ctx.viol("range_protocols:rejected", case, repr(ex), "a line accepted on the platform")
    ctx.sample("generated", dict(platform=platform, proto=proto, numbers=len(numbers)))


def _platform_switch(ctx):
    """One Port object built (by name or by number, rendered once) on platform A, then switched to
    platform B: the number is unchanged and the new text is a spelling of platform B."""
    from cisco_acl import Port
    from cisco_acl.port_name import PortName

    for proto in ("tcp", "udp"):
        numbers = sorted(set(golden.PORTS[proto].values()) | {1, 4000, 65535})
        for a in PLATFORMS:
            names_a = PortName(protocol=proto, platform=a).names()
            for b in PLATFORMS:
                if a == b:
                    continue
                table_b = PortName(protocol=proto, platform=b).names()
                inputs = [(str(n), n) for n in numbers] + [(nm, nr) for nm, nr in sorted(names_a.items())]
                for text, nr in inputs:
                    for pre_render in (True, False):
                        ctx.ev()
                        ctx.nt_count()
                        case = dict(kind="platform_switch", proto=proto, a=a, b=b, text=text,
                                    pre_render=pre_render)
                        try:
                            port = Port(f"eq {text}", platform=a, protocol=proto)
                            if pre_render:
                                _ = port.line
                            port.platform = b
                            line = port.line
                        except (ValueError, TypeError) as ex:
                            ctx.viol("Port.platform:switch_refused", case, repr(ex), "converted")
                            continue
                        tok = line.split()[-1] if line else ""
                        if port.ports != [nr]:
                            ctx.viol("Port.platform:number_changed", case, port.ports[:5], [nr])
                        elif not (tok == str(nr) or table_b.get(tok) == nr):
                            ctx.viol("Port.platform:text_is_no_spelling_of_the_new_platform", case, line,
                                     f"eq {nr} or a {b} name of {nr}")
                        else:
                            try:
                                if Port(line, platform=b, protocol=proto).ports != [nr]:
                                    raise ValueError("other number")
                                ctx.out("platform_switch_ok")
                            except (ValueError, TypeError) as ex:
                                ctx.viol("Port.platform:new_text_rejected_on_new_platform", case,
                                         dict(line=line, error=repr(ex)), "accepted")
    ctx.sample("platform_switch", "Port('eq cmd', platform='ios').platform = 'asa'")


def _tables(ctx):
    """Every module-level table: vocabulary membership, golden numbers, collisions."""
    from cisco_acl import port_name as pn

    vocab = set(pn.all_known_names())
    for attr in sorted(dir(pn)):
        if not attr.startswith(("TCP_NAME_PORT", "UDP_NAME_PORT")):
            continue
        table = getattr(pn, attr)
        proto = "tcp" if attr.startswith("TCP") else "udp"
        for name, nr in sorted(table.items()):
            ctx.ev()
            ctx.nt_count()
            case = dict(kind="table", table=attr, name=name)
            gold = golden.PORTS[proto].get(name)
            if gold is None:
                ctx.out("unverified_names")
            elif gold != nr:
                ctx.viol("table:wrong_number", case, nr, gold)
            if name not in vocab:
                ctx.viol("vocab:name_missing_from_splitter_vocabulary", case, name, "in vocabulary")
            if name in RESERVED or name.isdigit() or not name or " " in name:
                ctx.viol("table:name_collides_with_keyword", case, name, "not a keyword")
            ctx.out("table_row_ok")
    for name in sorted(vocab):
        if name in RESERVED:
            ctx.viol("vocab:keyword_in_vocabulary", dict(kind="table", name=name), name, "")
    ctx.sample("table", "TCP_NAME_PORT__IOS_15")
