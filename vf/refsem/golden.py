"""Golden name -> number tables, written by hand from the IANA assignments under Cisco's spellings.

Never derived from cisco_acl.  `services_crosscheck()` compares them with /etc/services wherever
the spelling (or a listed alias) coincides.
"""
from __future__ import annotations

import os
import re

TCP = {
    "aol": 5190, "bgp": 179, "chargen": 19, "cifs": 3020, "citrix-ica": 1494, "cmd": 514,
    "ctiqbe": 2748, "daytime": 13, "discard": 9, "domain": 53, "drip": 3949, "echo": 7,
    "exec": 512, "finger": 79, "ftp": 21, "ftp-data": 20, "gopher": 70, "h323": 1720,
    "hostname": 101, "https": 443, "ident": 113, "imap4": 143, "irc": 194, "kerberos": 750,
    "klogin": 543, "kshell": 544, "ldap": 389, "ldaps": 636, "login": 513, "lotusnotes": 1352,
    "lpd": 515, "msrpc": 135, "netbios-ssn": 139, "nfs": 2049, "nntp": 119, "onep-plain": 15001,
    "onep-tls": 15002, "pcanywhere-data": 5631, "pim-auto-rp": 496, "pop2": 109, "pop3": 110,
    "pptp": 1723, "rsh": 514, "rtsp": 554, "sip": 5060, "smtp": 25, "sqlnet": 1521, "ssh": 22,
    "sunrpc": 111, "syslog": 514, "tacacs": 49, "talk": 517, "telnet": 23, "time": 37,
    "uucp": 540, "whois": 43, "www": 80,
}
UDP = {
    "biff": 512, "bootpc": 68, "bootps": 67, "cifs": 3020, "discard": 9, "dnsix": 195,
    "domain": 53, "echo": 7, "isakmp": 500, "kerberos": 750, "mobile-ip": 434, "nameserver": 42,
    "netbios-dgm": 138, "netbios-ns": 137, "netbios-ss": 139, "nfs": 2049,
    "non500-isakmp": 4500, "ntp": 123, "pcanywhere-status": 5632, "pim-auto-rp": 496,
    "radius": 1645, "radius-acct": 1646, "rip": 520, "ripv6": 521, "secureid-udp": 5510,
    "sip": 5060, "snmp": 161, "snmptrap": 162, "sunrpc": 111, "syslog": 514, "tacacs": 49,
    "talk": 517, "tftp": 69, "time": 37, "vxlan": 4789, "who": 513, "www": 80, "xdmcp": 177,
}
PROTO = {
    "ip": 0, "icmp": 1, "igmp": 2, "ipip": 4, "ipinip": 4, "tcp": 6, "egp": 8, "igrp": 9,
    "udp": 17, "ipv6": 41, "gre": 47, "esp": 50, "ah": 51, "ahp": 51, "icmp6": 58, "eigrp": 88,
    "ospf": 89, "nos": 94, "pim": 103, "pcp": 108, "snp": 109, "sctp": 132,
}
PORTS = {"tcp": TCP, "udp": UDP}

# Cisco spelling -> spelling(s) used by /etc/services
_SERVICES_ALIAS = {
    "www": ["http", "www"], "hostname": ["hostnames"], "ident": ["auth"], "cmd": ["shell"],
    "lpd": ["printer"], "pop2": ["pop2", "postoffice"], "imap4": ["imap2", "imap"],
    "sqlnet": ["ncube-lm"], "snmptrap": ["snmp-trap"], "bootps": ["bootps"],
    "netbios-ss": ["netbios-ssn"], "isakmp": ["isakmp"], "non500-isakmp": ["ipsec-nat-t"],
    "who": ["who"], "rip": ["route", "router"], "biff": ["biff", "comsat"],
    "kerberos": ["kerberos4", "kerberos-iv"], "lotusnotes": ["lotusnote"], "h323": ["h323hostcall"],
    "nameserver": ["nameserver", "name"],
}


# Cisco keeps the pre-IANA RADIUS ports 1645/1646 under these names; /etc/services lists 1812/1813.
_SERVICES_SKIP = {"radius", "radius-acct"}


def services_crosscheck(path: str = "/etc/services") -> dict:
    """Compare golden tables with /etc/services; return counts and disagreements."""
    res = dict(present=os.path.exists(path), compared=0, disagree=[])
    if not res["present"]:
        return res
    table = {}
    with open(path, encoding="utf-8", errors="replace") as fh:
        for line in fh:
            line = line.split("#")[0]
            m = re.match(r"(\S+)\s+(\d+)/(tcp|udp)(.*)", line)
            if not m:
                continue
            names = [m.group(1)] + m.group(4).split()
            for n in names:
                table.setdefault((m.group(3), n), int(m.group(2)))
    for proto, golden in PORTS.items():
        for name, nr in golden.items():
            if name in _SERVICES_SKIP:
                continue
            for alias in _SERVICES_ALIAS.get(name, [name]):
                got = table.get((proto, alias))
                if got is not None:
                    res["compared"] += 1
                    if got != nr:
                        res["disagree"].append((proto, name, alias, nr, got))
                    break
    return res
