"""Abstract rules, first-match ACL semantics and exact ACL equivalence.  No cisco_acl import."""
from __future__ import annotations

from dataclasses import dataclass, field
from itertools import product

from vf.refsem import sets as S


def _pm(mask: int) -> str:
    """Compact text of a port mask."""
    if mask == S.PORT_ANY:
        return "*"
    lst = S.mask_to_list(mask)
    if len(lst) > 6:
        return f"{{{lst[0]},{lst[1]},..,{lst[-1]} n={len(lst)}}}"
    return "{" + ",".join(map(str, lst)) + "}"


def _am(cubes) -> str:
    return "[" + " ".join(
        "any" if c == S.ANY_CUBE else f"{S.int2ip(c[0])}~{S.int2ip(c[1])}" for c in cubes) + "]"


@dataclass(frozen=True, repr=False)
class Rule:
    """One ACE as a product of six sets + action.  `src`/`dst` are tuples of cubes (unions)."""

    action: str
    proto: int  # protocol number, 0 = ip = every protocol
    src: tuple
    sport: int  # port mask, S.PORT_ANY = no constraint
    dst: tuple
    dport: int
    flags: int = S.FLAG_ANY
    seq: int = 0
    logs: tuple = ()
    flag_tokens: tuple = ()
    src_group: str = ""
    dst_group: str = ""

    def __repr__(self):
        fl = "" if self.flags == S.FLAG_ANY else f" flags={self.flag_tokens or hex(self.flags)}"
        return (f"<{self.seq or ''} {self.action} p{self.proto} {_am(self.src)}:{_pm(self.sport)}"
                f" -> {_am(self.dst)}:{_pm(self.dport)}{fl}>")

    @property
    def pmask(self) -> int:
        return S.proto_mask(self.proto)

    def is_empty(self) -> bool:
        return (not self.src or not self.dst or not self.sport or not self.dport
                or not self.flags)

    def matches(self, pkt) -> bool:
        proto, sa, sp, da, dp, fl = pkt
        return bool(
            (self.pmask >> proto) & 1
            and (self.sport >> sp) & 1
            and (self.dport >> dp) & 1
            and (self.flags >> fl) & 1
            and S.addr_contains(self.src, sa)
            and S.addr_contains(self.dst, da)
        )

    def sem(self):
        """The packet-set relevant part (what 'same packets, same action' compares)."""
        return (self.action, self.pmask, self.src, self.sport, self.dst, self.dport, self.flags)


@dataclass(frozen=True)
class Remark:
    text: str
    seq: int = 0


def rule_subset(a: Rule, b: Rule) -> bool:
    """packet-set(a) ⊆ packet-set(b), exact."""
    if a.is_empty():
        return True
    if b.is_empty():
        return False
    return (
        a.pmask & ~b.pmask == 0
        and a.sport & ~b.sport == 0
        and a.dport & ~b.dport == 0
        and a.flags & ~b.flags == 0
        and S.addr_subset(a.src, b.src)
        and S.addr_subset(a.dst, b.dst)
    )


def rule_equal(a: Rule, b: Rule) -> bool:
    return rule_subset(a, b) and rule_subset(b, a)


def same_packets(a: Rule, b: Rule) -> bool:
    """Same action and same packet set."""
    if a.is_empty() and b.is_empty():
        return True  # both match nothing, action irrelevant
    return a.action == b.action and rule_equal(a, b)


def first_match(rules, pkt) -> str:
    for r in rules:
        if r.matches(pkt):
            return r.action
    return "implicit-deny"


def representatives(rule_lists):
    """One packet per cell of the product of per-dimension atoms of all sets that occur."""
    rules = [r for rl in rule_lists for r in rl]
    protos = S.mask_atoms([r.pmask for r in rules], S.PROTO_ANY)
    sports = S.mask_atoms([r.sport for r in rules], S.PORT_ANY)
    dports = S.mask_atoms([r.dport for r in rules], S.PORT_ANY)
    flags = S.mask_atoms([r.flags for r in rules], S.FLAG_ANY)
    srcs = S.addr_atoms([c for r in rules for c in r.src])
    dsts = S.addr_atoms([c for r in rules for c in r.dst])
    return protos, srcs, sports, dsts, dports, flags


def acl_equivalent(rules_a, rules_b, want_counter=False):
    """Exact first-match equivalence of two rule lists.

    Both ACLs are constant on every cell of the product of the per-dimension atoms, so checking
    one representative per cell decides equivalence over all packets.
    :return: None if equivalent, else a counter-example packet (proto, sa, sp, da, dp, flags).
    """
    protos, srcs, sports, dsts, dports, flags = representatives([rules_a, rules_b])

    def table(rules):
        out = []
        for r in rules:
            out.append((
                r.action,
                frozenset(p for p in protos if (r.pmask >> p) & 1),
                frozenset(a for a in srcs if S.addr_contains(r.src, a)),
                frozenset(p for p in sports if (r.sport >> p) & 1),
                frozenset(a for a in dsts if S.addr_contains(r.dst, a)),
                frozenset(p for p in dports if (r.dport >> p) & 1),
                frozenset(f for f in flags if (r.flags >> f) & 1),
            ))
        return out

    ta, tb = table(rules_a), table(rules_b)

    def decide(tab, pkt):
        for act, ps, ss, sps, ds, dps, fs in tab:
            if (pkt[0] in ps and pkt[1] in ss and pkt[2] in sps and pkt[3] in ds
                    and pkt[4] in dps and pkt[5] in fs):
                return act
        return "implicit-deny"

    cells = 0
    for pkt in product(protos, srcs, sports, dsts, dports, flags):
        cells += 1
        da, db = decide(ta, pkt), decide(tb, pkt)
        # an explicit deny and the implicit deny are the same decision for the packet
        if _norm(da) != _norm(db):
            return (pkt, cells) if want_counter else pkt
    return (None, cells) if want_counter else None


def _norm(action: str) -> str:
    return "deny" if action in ("deny", "implicit-deny") else action


def union_equals_rule(parts, whole: Rule) -> bool:
    """Union of the packet sets of `parts` == packet set of `whole` (all same action)."""
    if any(p.action != whole.action for p in parts if not p.is_empty()):
        return False
    a = [_as_permit(p) for p in parts]
    b = [_as_permit(whole)]
    return acl_equivalent(a, b) is None


def _as_permit(r: Rule) -> Rule:
    return Rule("permit", r.proto, r.src, r.sport, r.dst, r.dport, r.flags)
