"""Independent strict token-level readers of Cisco ACL syntax (IOS and NX-OS).

No regular expression, table or helper is shared with cisco_acl.  Names are decoded with the
golden tables; the set of names a platform/version accepts can be narrowed by the caller
(`port_names=`) - that vocabulary is the one thing taken from the library's tables (C09 checks
those tables for closure and against the golden numbers).
"""
from __future__ import annotations

from vf.refsem import golden
from vf.refsem import sets as S
from vf.refsem.packets import Remark, Rule

SEQ_MAX = 4294967295
LOGS = ("log", "log-input")
PROTO_NAMES = {
    "ios": ("ip", "icmp", "igmp", "ipip", "tcp", "egp", "udp", "ipv6", "gre", "esp", "ah", "ahp",
            "eigrp", "ospf", "nos", "pim", "pcp"),
    "nxos": ("ip", "icmp", "igmp", "tcp", "udp", "gre", "esp", "ahp", "eigrp", "ospf", "nos",
             "pim", "pcp"),
}
OPS = ("eq", "neq", "lt", "gt", "range")
OPAQUE_WITH_ARG = ("dscp", "precedence", "tos", "ttl", "time-range", "packet-length", "option")


class Reject(Exception):
    """Text is not valid syntax for the platform of the reader."""


def _is_ip(tok: str) -> bool:
    try:
        S.ip2int(tok)
        return True
    except ValueError:
        return False


def _is_wild_any(tok: str) -> bool:
    return _is_ip(tok)


def _contiguous_netmask(m: int) -> bool:
    inv = ~m & S.ALL32
    return inv & (inv + 1) == 0


class Reader:
    """Reader for one platform."""

    def __init__(self, platform: str, port_names=None, groups=None, max_eq: int = 10):
        """:param port_names: {"tcp": set(names), "udp": set(names)} accepted (None = all golden).
        :param groups: {name: tuple of cubes} used to resolve group references (optional)."""
        if platform not in ("ios", "nxos"):
            raise ValueError(platform)
        self.platform = platform
        self.port_names = port_names
        self.groups = groups or {}
        self.max_eq = max_eq

    # ------------------------------------------------------------ tokens
    def _seq(self, toks: list) -> int:
        if toks and toks[0].isdigit() and toks[0].isascii():
            val = int(toks.pop(0))
            if not 1 <= val <= SEQ_MAX:
                raise Reject(f"sequence {val} out of range")
            return val
        return 0

    def _proto(self, tok: str) -> int:
        if tok.isdigit() and tok.isascii():
            val = int(tok)
            if val > 255:
                raise Reject(f"protocol {tok}")
            return val
        if tok in PROTO_NAMES[self.platform]:
            return golden.PROTO[tok]
        raise Reject(f"protocol name {tok!r} not valid on {self.platform}")

    def _addr(self, toks: list):
        """Consume one address; return (cubes, group_name)."""
        if not toks:
            raise Reject("address expected")
        tok = toks.pop(0)
        if tok == "any":
            return (S.ANY_CUBE,), ""
        if tok == "host":
            if not toks or not _is_ip(toks[0]):
                raise Reject("host needs an address")
            return (S.cube(S.ip2int(toks.pop(0)), 0),), ""
        kw = "object-group" if self.platform == "ios" else "addrgroup"
        if tok == kw:
            if not toks:
                raise Reject("group name expected")
            name = toks.pop(0)
            return tuple(self.groups.get(name, ())), name
        if self.platform == "nxos" and "/" in tok:
            ip, _, length = tok.partition("/")
            if not (_is_ip(ip) and length.isdigit() and length.isascii() and int(length) <= 32):
                raise Reject(f"prefix {tok!r}")
            return (S.prefix_cube_loose(S.ip2int(ip), int(length)),), ""
        if _is_ip(tok):
            if not toks or not _is_ip(toks[0]):
                raise Reject(f"wildcard expected after {tok}")
            wild = S.ip2int(toks.pop(0))
            return (S.cube(S.ip2int(tok), wild),), ""
        raise Reject(f"address token {tok!r} not valid on {self.platform}")

    def _port_value(self, tok: str, proto: int) -> int:
        if tok.isdigit() and tok.isascii():
            val = int(tok)
            if not 0 <= val <= 65535:
                raise Reject(f"port {tok}")
            return val
        pname = "tcp" if proto == 6 else "udp"
        table = golden.PORTS[pname]
        if tok in table and (self.port_names is None or tok in self.port_names[pname]):
            return table[tok]
        raise Reject(f"port name {tok!r} not valid for {pname} on {self.platform}")

    def _is_port_tok(self, tok: str, proto: int) -> bool:
        try:
            self._port_value(tok, proto)
            return True
        except Reject:
            return False

    def _portexpr(self, toks: list, proto: int):
        """Consume an optional port expression; return (mask, (op, operands))."""
        if not toks or toks[0] not in OPS:
            return S.PORT_ANY, None
        if proto not in (6, 17):
            raise Reject("port operator on a protocol without ports")
        op = toks.pop(0)
        if op in ("lt", "gt"):
            n_min = n_max = 1
        elif op == "range":
            n_min = n_max = 2
        else:
            n_min, n_max = 1, (self.max_eq if self.platform == "ios" else 1)
        vals = []
        while toks and len(vals) < n_max and self._is_port_tok(toks[0], proto):
            vals.append(self._port_value(toks.pop(0), proto))
        if len(vals) < n_min:
            raise Reject(f"operator {op} needs {n_min} operand(s)")
        return S.port_expr_mask(op, vals), (op, tuple(vals))

    # ------------------------------------------------------------ lines
    def read_line(self, line: str, acl_type: str = "extended"):
        """Read one ACL body line -> Rule or Remark."""
        toks = line.split()
        seq = self._seq(toks)
        if not toks:
            raise Reject("empty line")
        action = toks.pop(0)
        if action == "remark":
            if not toks:
                raise Reject("remark without text")
            # text is everything after the keyword, blanks normalised by the tokenisation
            return Remark(" ".join(toks), seq)
        if action not in ("permit", "deny"):
            raise Reject(f"action {action!r}")
        if acl_type == "standard":
            return self._standard(toks, action, seq)
        if len(toks) < 3:
            raise Reject("too short")
        proto = self._proto(toks.pop(0))
        src, sgroup = self._addr(toks)
        sport, sexpr = self._portexpr(toks, proto)
        dst, dgroup = self._addr(toks)
        dport, dexpr = self._portexpr(toks, proto)
        flag_tokens, logs, opaque = [], [], []
        prev = ""
        for tok in toks:
            if tok in S.FLAG_NAMES:
                if proto != 6:
                    raise Reject("tcp flag on a non-tcp entry")
                flag_tokens.append(tok)
            elif tok in LOGS:
                logs.append(tok)
            elif tok[0].isascii() and (tok[0].islower() or tok[0] in "+-"):
                opaque.append(tok)
            elif prev in OPAQUE_WITH_ARG or (prev in OPS and opaque):
                opaque.append(tok)
            else:
                raise Reject(f"unexpected token {tok!r} after the addresses")
            prev = tok
        rule = Rule(action, proto, src, sport, dst, dport, S.flags_mask(flag_tokens), seq,
                    tuple(logs), tuple(flag_tokens), sgroup, dgroup)
        object.__setattr__(rule, "_exprs", (sexpr, dexpr))
        object.__setattr__(rule, "_opaque", tuple(opaque))
        return rule

    def _standard(self, toks: list, action: str, seq: int):
        if self.platform != "ios":
            raise Reject("standard ACL on NX-OS")
        if not toks:
            raise Reject("address expected")
        if _is_ip(toks[0]) and (len(toks) == 1 or not _is_ip(toks[1])):
            src = (S.cube(S.ip2int(toks.pop(0)), 0),)  # bare host
            sgroup = ""
        else:
            src, sgroup = self._addr(toks)
        logs = []
        for tok in toks:
            if tok != "log":
                raise Reject(f"unexpected token {tok!r} in a standard entry")
            logs.append(tok)
        rule = Rule(action, 0, src, S.PORT_ANY, (S.ANY_CUBE,), S.PORT_ANY, S.FLAG_ANY, seq,
                    tuple(logs), (), sgroup, "")
        object.__setattr__(rule, "_exprs", (None, None))
        object.__setattr__(rule, "_opaque", ())
        return rule

    def read_acl(self, text: str) -> dict:
        """Read a whole ACL (header + body lines)."""
        lines = [ln for ln in text.split("\n") if ln.strip()]
        if not lines:
            raise Reject("empty ACL text")
        head = lines[0].split()
        if head[:2] != ["ip", "access-list"]:
            raise Reject(f"header {lines[0]!r}")
        rest = head[2:]
        if self.platform == "ios":
            if len(rest) != 2 or rest[0] not in ("extended", "standard"):
                raise Reject(f"IOS header needs a type and a name: {lines[0]!r}")
            acl_type, name = rest
        else:
            if len(rest) != 1:
                raise Reject(f"NX-OS header needs exactly a name: {lines[0]!r}")
            acl_type, name = "extended", rest[0]
        indents = [len(ln) - len(ln.lstrip(" \t")) for ln in lines[1:]]
        items = [self.read_line(ln, acl_type) for ln in lines[1:]]
        return dict(name=name, type=acl_type, items=items, indents=indents)

    def read_addrgroup(self, text: str) -> dict:
        """Read an address-group section -> name and members [(seq, cubes, nested_name)]."""
        lines = [ln for ln in text.split("\n") if ln.strip()]
        if not lines:
            raise Reject("empty group text")
        head = lines[0].split()
        want = ["object-group", "network"] if self.platform == "ios" else \
            ["object-group", "ip", "address"]
        if head[:len(want)] != want or len(head) != len(want) + 1:
            raise Reject(f"group header {lines[0]!r} not valid on {self.platform}")
        members = []
        for ln in lines[1:]:
            toks = ln.split()
            seq = 0
            if self.platform == "nxos":
                seq = self._seq(toks)
            elif toks and toks[0].isdigit():
                raise Reject(f"IOS group members carry no sequence numbers: {ln!r}")
            if not toks:
                raise Reject("empty member")
            if toks[0] == "description":
                continue
            if toks[0] == "host" and len(toks) == 2 and _is_ip(toks[1]):
                members.append((seq, S.cube(S.ip2int(toks[1]), 0), ""))
            elif self.platform == "ios" and toks[0] == "group-object" and len(toks) == 2:
                members.append((seq, None, toks[1]))
            elif self.platform == "ios" and len(toks) == 2 and _is_ip(toks[0]) and _is_ip(toks[1]):
                mask = S.ip2int(toks[1])
                if not _contiguous_netmask(mask):
                    raise Reject(f"IOS group member needs a contiguous netmask: {ln!r}")
                members.append((seq, S.cube(S.ip2int(toks[0]), ~mask & S.ALL32), ""))
            elif self.platform == "nxos" and len(toks) == 1 and "/" in toks[0]:
                ip, _, length = toks[0].partition("/")
                if not (_is_ip(ip) and length.isdigit() and int(length) <= 32):
                    raise Reject(f"member {ln!r}")
                members.append((seq, S.prefix_cube_loose(S.ip2int(ip), int(length)), ""))
            elif self.platform == "nxos" and len(toks) == 2 and _is_ip(toks[0]) and _is_ip(toks[1]):
                members.append((seq, S.cube(S.ip2int(toks[0]), S.ip2int(toks[1])), ""))
            else:
                raise Reject(f"member {ln!r} not valid on {self.platform}")
        return dict(name=head[-1], members=members)
