"""Self-validation of the reference semantics against brute force on a toy universe.

A wrong oracle is the main source of false alarms; `./vcheck selftest` (MANIFEST.setup_cmd) bounds
that risk: cube algebra, cover, atoms, port/flag masks and ACL equivalence are compared with plain
set enumeration, the readers with hand-written fixtures.
"""
from __future__ import annotations

import itertools
import sys
import time

from vf.refsem import golden
from vf.refsem import sets as S
from vf.refsem.packets import Rule, Remark, acl_equivalent, first_match, rule_subset
from vf.refsem.reader import Reader, Reject

BITS = 4


def _cubes(bits=BITS):
    out = []
    for tern in itertools.product((0, 1, 2), repeat=bits):  # 2 = wildcard
        base = wild = 0
        for i, t in enumerate(tern):
            if t == 2:
                wild |= 1 << i
            elif t:
                base |= 1 << i
        out.append((base, wild))
    return out


def _members(c, bits=BITS):
    return frozenset(a for a in range(1 << bits) if S.cube_contains(c, a))


def check(cond, msg):
    if not cond:
        raise AssertionError(msg)


def test_cubes():
    cubes = _cubes()
    mem = {c: _members(c) for c in cubes}
    n = 0
    for a in cubes:
        for b in cubes:
            n += 1
            check(S.cube_subset(a, b) == (mem[a] <= mem[b]), f"subset {a} {b}")
            i = S.cube_inter(a, b)
            want = mem[a] & mem[b]
            check((i is None and not want) or (i is not None and mem[i] == want), f"inter {a} {b}")
            d = S.cube_diff(a, b)
            got = set()
            for piece in d:
                pm = _members(piece)
                check(not (got & pm), f"diff pieces overlap {a} {b}")
                got |= pm
            check(got == mem[a] - mem[b], f"diff {a} {b}")
    # cover: cube vs union of two cubes (all triples over 3 bits), union of three (sample grid)
    small = _cubes(3)
    smem = {c: _members(c, 3) for c in small}
    for c in small:
        for u1 in small:
            for u2 in small:
                n += 1
                check(S.cubes_cover(c, [u1, u2]) == (smem[c] <= (smem[u1] | smem[u2])),
                      f"cover {c} {u1} {u2}")
    for c in small[::2]:
        for u in itertools.combinations(small[::3], 3):
            n += 1
            un = smem[u[0]] | smem[u[1]] | smem[u[2]]
            check(S.cubes_cover(c, list(u)) == (smem[c] <= un), f"cover3 {c} {u}")
    # atoms
    universe = range(1 << 3)
    for fam in itertools.combinations(small, 3):
        n += 1
        reps = S.addr_atoms(fam)
        sig = lambda a: tuple(S.cube_contains(c, a) for c in fam)  # noqa
        sigs_all = {sig(a) for a in universe} | {sig(0xFFFFFFFF)}
        sigs_rep = [sig(a) for a in reps]
        check(len(set(sigs_rep)) == len(sigs_rep), f"atoms duplicate {fam}")
        check(set(sigs_rep) >= sigs_all, f"atoms missing {fam}")
    # sizes and prefixes
    for c in [(0x0A000000, 0x000000FF), (0x0A000000, 0x00000103), (0, S.ALL32), (5, 0)]:
        pref = S.cube_prefixes(c)
        total = sum(1 << (32 - ln) for _, ln in pref)
        check(total == 1 << bin(c[1]).count("1"), f"prefix size {c}")
        check(S.addr_size([c]) == total, f"addr_size {c}")
        for net, ln in pref:
            check(S.cube_subset(S.prefix_cube(net, ln), c), f"prefix inside {c}")
    check(S.addr_size([(0, 3), (2, 1), (8, 0)]) == 5, "addr_size union")
    return n


def test_masks():
    n = 0
    for op, operands, want in [
        ("eq", [80], {80}), ("eq", [1, 65535], {1, 65535}),
        ("neq", [1], set(range(2, 65536))), ("lt", [1], set()), ("lt", [3], {1, 2}),
        ("gt", [65535], set()), ("gt", [65533], {65534, 65535}), ("range", [5, 3], {3, 4, 5}),
        ("range", [1, 65535], set(range(1, 65536))), ("neq", [3, 4], set(range(1, 65536)) - {3, 4}),
    ]:
        n += 1
        check(set(S.mask_to_list(S.port_expr_mask(op, operands))) == want, f"{op} {operands}")
    check(S.PORT_ANY & 1 and S.port_expr_mask("neq", [5]) & 1 == 0, "port 0 only in PORT_ANY")
    fa = S.flags_mask(["ack"])
    fas = S.flags_mask(["ack", "syn"])
    check(fa & ~fas == 0 and fas & ~fa != 0, "flag disjunction ordering")
    check(S.flags_mask([]) == S.FLAG_ANY and not (fa >> 0) & 1, "flags none")
    reps = S.mask_atoms([S.port_expr_mask("eq", [80]), S.port_expr_mask("lt", [100])], S.PORT_ANY)
    check(len(reps) == 3, f"port atoms {reps}")
    return n


def test_equivalence():
    """acl_equivalent against brute-force first-match over a packet grid that hits every atom."""
    any_ = (S.ANY_CUBE,)
    h1 = (S.cube(0x0A000001, 0),)
    n30 = (S.cube(0x0A000000, 3),)
    n24 = (S.cube(0x0A000000, 255),)
    grp = (S.cube(0x0A000001, 0), S.cube(0x0A000040, 0x3F))
    pa = S.PORT_ANY
    alphabet = [
        Rule("permit", 0, any_, pa, any_, pa),
        Rule("permit", 6, n24, pa, any_, S.port_expr_mask("eq", [80])),
        Rule("deny", 6, n30, pa, any_, S.port_expr_mask("range", [1, 100])),
        Rule("permit", 6, h1, pa, any_, pa, S.flags_mask(["ack"])),
        Rule("deny", 17, grp, S.port_expr_mask("gt", [1023]), n24, pa),
        Rule("deny", 0, n24, pa, any_, pa),
        Rule("permit", 6, any_, pa, any_, S.port_expr_mask("lt", [1])),
    ]
    addrs = [0, 0x0A000000, 0x0A000001, 0x0A000002, 0x0A000005, 0x0A000041, 0x0A0000FF,
             0x0A000100, 0xFFFFFFFF]
    ports = [0, 1, 50, 80, 81, 100, 101, 1023, 1024, 65535]
    protos = [1, 6, 17]
    flags = [0, 1, 16, 17]
    grid = [(p, sa, sp, da, dp, f) for p in protos for sa in addrs for sp in (0, 1024, 500)
            for da in (0, 0x0A000001, 0x0B000000) for dp in ports for f in flags]
    lists = [()] + [(r,) for r in alphabet] + list(itertools.permutations(alphabet, 2))
    lists = lists[:1] + lists[1:8] + lists[8::2]
    n = 0
    for a in lists:
        for b in lists[::3]:
            n += 1
            brute = None
            for pkt in grid:
                da, db = first_match(a, pkt), first_match(b, pkt)
                if (da == "permit") != (db == "permit"):
                    brute = pkt
                    break
            got = acl_equivalent(a, b)
            check((brute is None) == (got is None), f"equivalence differs: {a} {b} {brute} {got}")
            if got is not None:
                check((first_match(a, got) == "permit") != (first_match(b, got) == "permit"),
                      "counter-example is not one")
    # rule_subset vs brute force
    for a in alphabet:
        for b in alphabet:
            n += 1
            brute = all(b.matches(p) for p in grid if a.matches(p))
            got = rule_subset(a, b)
            check(not got or brute, f"rule_subset unsound {a} {b}")
            if brute and not got:
                # grid may be too coarse to see a difference; confirm with equivalence machinery
                ap = Rule("permit", a.proto, a.src, a.sport, a.dst, a.dport, a.flags)
                bp = Rule("permit", b.proto, b.src, b.sport, b.dst, b.dport, b.flags)
                check(acl_equivalent([bp, ap], [bp]) is not None, f"rule_subset incomplete {a} {b}")
    return n


FIXTURES = [
    # platform, type, line, expectation
    ("ios", "extended", "10 permit tcp host 10.0.0.1 eq 179 10.0.0.0 0.0.0.3 eq www 443 log",
     dict(action="permit", proto=6, seq=10, src=[(0x0A000001, 0)], sport={179},
          dst=[(0x0A000000, 3)], dport={80, 443}, logs=("log",))),
    ("ios", "extended", "deny udp any range 5 3 object-group G gt 65533",
     dict(action="deny", proto=17, seq=0, src=[(0, S.ALL32)], sport={3, 4, 5}, dst_group="G",
          dport={65534, 65535})),
    ("ios", "extended", "permit 47 1.2.3.4 0.0.1.3 any",
     dict(action="permit", proto=47, src=[(0x01020204, 0x103)], dst=[(0, S.ALL32)])),
    ("ios", "extended", "permit tcp any any ack rst log-input",
     dict(action="permit", proto=6, flag_tokens=("ack", "rst"), logs=("log-input",))),
    ("ios", "standard", "20 permit 10.0.0.1", dict(action="permit", seq=20, src=[(0x0A000001, 0)])),
    ("ios", "standard", "deny 10.0.0.0 0.0.0.255 log", dict(action="deny", src=[(0x0A000000, 255)])),
    ("ios", "extended", "remark  = hello   world", dict(remark="= hello world")),
    ("nxos", "extended", "10 permit tcp 10.0.0.0/24 eq 22 addrgroup G lt 1024",
     dict(action="permit", proto=6, seq=10, src=[(0x0A000000, 255)], sport={22}, dst_group="G",
          dport=set(range(1, 1024)))),
    ("nxos", "extended", "permit ip 10.0.0.1/32 10.0.0.9/24",
     dict(action="permit", proto=0, src=[(0x0A000001, 0)], dst=[(0x0A000000, 255)])),
    ("nxos", "extended", "permit ahp host 1.1.1.1 any", dict(action="permit", proto=51)),
]
REJECTS = [
    ("ios", "extended", "permit tcp 10.0.0.0/24 any"),
    ("ios", "extended", "permit tcp addrgroup G any"),
    ("ios", "extended", "permit ip any any eq 80"),
    ("ios", "extended", "permit tcp any any lt 1 2"),
    ("ios", "extended", "permit tcp any any range 1"),
    ("ios", "extended", "permit ipinip any any"),
    ("ios", "extended", "permit tcp any eq 1 2 3 4 5 6 7 8 9 10 11 any"),
    ("ios", "extended", "0 permit ip any any"),
    ("ios", "extended", "4294967296 permit ip any any"),
    ("ios", "extended", "permit icmp any any ack"),
    ("nxos", "extended", "permit tcp any any eq 80 443"),
    ("nxos", "extended", "permit tcp object-group G any"),
    ("nxos", "extended", "permit ah any any"),
    ("nxos", "extended", "permit ipip any any"),
    ("nxos", "extended", "permit tcp any any eq msrpc"),
    ("nxos", "standard", "permit 10.0.0.1"),
    ("ios", "extended", "permit tcp any any 443"),
    ("ios", "extended", "permit tcp any"),
    ("ios", "extended", "allow ip any any"),
]


def test_readers():
    n = 0
    names = {"nxos": dict(tcp={"www", "bgp"}, udp={"domain"})}
    for platform, typ, line, want in FIXTURES:
        n += 1
        got = Reader(platform, port_names=names.get(platform)).read_line(line, typ)
        if "remark" in want:
            check(isinstance(got, Remark) and got.text == want["remark"], f"remark {line}")
            continue
        for key, val in want.items():
            have = getattr(got, key)
            if key in ("sport", "dport"):
                have = set(S.mask_to_list(have))
            if key in ("src", "dst"):
                have = list(have)
            check(have == val, f"reader {platform} {line!r}: {key} = {have!r}, want {val!r}")
    for platform, typ, line in REJECTS:
        n += 1
        try:
            Reader(platform, port_names=names.get(platform)).read_line(line, typ)
        except Reject:
            continue
        raise AssertionError(f"reader {platform} accepted {line!r}")
    acl = Reader("ios").read_acl("ip access-list extended A-1\n  remark x\n  permit ip any any")
    check(acl["name"] == "A-1" and acl["type"] == "extended" and len(acl["items"]) == 2, "acl ios")
    acl = Reader("nxos").read_acl("ip access-list A\n 10 permit ip any any")
    check(acl["name"] == "A" and acl["items"][0].seq == 10 and acl["indents"] == [1], "acl nxos")
    for platform, text in [("ios", "ip access-list A\n permit ip any any"),
                           ("nxos", "ip access-list extended A\n permit ip any any")]:
        n += 1
        try:
            Reader(platform).read_acl(text)
        except Reject:
            continue
        raise AssertionError(f"reader accepted header {text!r} on {platform}")
    grp = Reader("ios").read_addrgroup(
        "object-group network G\n host 1.1.1.1\n 10.0.0.0 255.255.255.0\n group-object H")
    check(grp["members"] == [(0, (0x01010101, 0), ""), (0, (0x0A000000, 255), ""), (0, None, "H")],
          f"ios group {grp}")
    grp = Reader("nxos").read_addrgroup(
        "object-group ip address G\n 10 host 1.1.1.1\n 20 10.0.0.0/24\n 10.0.0.0 0.0.1.3")
    check([m[0] for m in grp["members"]] == [10, 20, 0] and grp["members"][2][1] == (0x0A000000, 0x103),
          f"nxos group {grp}")
    for platform, text in [("ios", "object-group network G\n 10 host 1.1.1.1"),
                           ("ios", "object-group network G\n 10.0.0.0/24"),
                           ("ios", "object-group network G\n 10.0.0.0 0.0.0.255"),
                           ("nxos", "object-group network G\n host 1.1.1.1"),
                           ("nxos", "object-group ip address G\n group-object H")]:
        n += 1
        try:
            Reader(platform).read_addrgroup(text)
        except Reject:
            continue
        raise AssertionError(f"group reader accepted {text!r} on {platform}")
    return n


def main() -> int:
    started = time.time()
    try:
        counts = dict(cubes=test_cubes(), masks=test_masks(), equivalence=test_equivalence(),
                      readers=test_readers())
        cross = golden.services_crosscheck()
        check(not cross["disagree"], f"golden tables disagree with /etc/services: {cross}")
    except AssertionError as ex:
        print(f"SELFTEST FAILED: {ex}")
        return 2
    print(f"selftest ok: {counts} services_crosscheck={cross['compared']} names compared "
          f"({time.time() - started:.1f}s)")
    return 0


if __name__ == "__main__":
    sys.exit(main())
