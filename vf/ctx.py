"""Recorder handed to every check: counts what a run really covered, collects violations.

One Ctx lives per work unit inside a worker process; the runner merges them.  Every number in an
evidence file comes from these counters - nothing is a constant.
"""
from __future__ import annotations

import hashlib
import json
import signal
from contextlib import contextmanager

MAX_SAMPLES_PER_LABEL = 2
MAX_CASES_PER_SIG = 3


class HarnessTimeout(BaseException):
    """Raised by cpu_alarm; BaseException so that library `except Exception` cannot swallow it."""


class HarnessError(Exception):
    """The harness itself is wrong (not the library): exit status 2, never a VIOLATION line."""


def digest(obj) -> int:
    """8-byte digest of any repr-able object (used for distinct counting)."""
    if not isinstance(obj, (str, bytes)):
        obj = repr(obj)
    if isinstance(obj, str):
        obj = obj.encode("utf-8", "surrogatepass")
    return int.from_bytes(hashlib.blake2b(obj, digest_size=8).digest(), "big")


@contextmanager
def cpu_alarm(seconds: float):
    """Per-call CPU budget (user time of this process)."""

    def _handler(signum, frame):  # noqa
        raise HarnessTimeout(f"cpu budget {seconds}s exceeded")

    old = signal.signal(signal.SIGVTALRM, _handler)
    signal.setitimer(signal.ITIMER_VIRTUAL, seconds)
    try:
        yield
    finally:
        signal.setitimer(signal.ITIMER_VIRTUAL, 0)
        signal.signal(signal.SIGVTALRM, old)


class Ctx:
    """Counters of one work unit (or the merged run)."""

    def __init__(self, tier: str = "quick", seed: int = 0):
        self.tier = tier
        self.seed = seed
        self.evaluations = 0
        self.nontrivial: set = set()  # digests of distinct non-trivial cases
        self.nontrivial_counted = 0  # distinct by construction (enumeration index), see rule
        self.outcomes: dict = {}
        self.samples: dict = {}
        self.states: set = set()
        self.transitions = 0
        self.traces = 0
        self.caps: dict = {}
        self.violations: dict = {}  # sig -> dict(count, cases[])
        self.notes: dict = {}
        self.extra: dict = {}  # check-specific measured numbers (summed)

    # ------------------------------------------------------------ counting
    def ev(self, n: int = 1) -> None:
        self.evaluations += n

    def nt(self, key) -> None:
        """Mark one distinct non-trivial case (de-duplicated by digest)."""
        self.nontrivial.add(digest(key))

    def nt_count(self, n: int = 1) -> None:
        """Non-trivial cases that are distinct by construction of the enumeration."""
        self.nontrivial_counted += n

    def out(self, label: str, n: int = 1) -> None:
        self.outcomes[label] = self.outcomes.get(label, 0) + n

    def add(self, label: str, n: int = 1) -> None:
        self.extra[label] = self.extra.get(label, 0) + n

    def sample(self, label: str, obj) -> None:
        lst = self.samples.setdefault(label, [])
        if len(lst) < MAX_SAMPLES_PER_LABEL:
            lst.append(obj)

    def state(self, fingerprint) -> bool:
        """Record a state; True if it was new in this unit."""
        d = digest(fingerprint)
        if d in self.states:
            return False
        self.states.add(d)
        return True

    def trans(self, n: int = 1) -> None:
        self.transitions += n

    def trace(self, n: int = 1) -> None:
        self.traces += n

    def cap(self, label: str, n: int = 1) -> None:
        self.caps[label] = self.caps.get(label, 0) + n

    # ------------------------------------------------------------ violations
    def viol(self, sig: str, case: dict, observed=None, expected=None, msg: str = "", kf=None):
        """Record a violation.

        :param sig: short stable signature "site:kind" used to group equal failures.
        :param case: JSON-able dict with key "kind" that `replay()` of the check re-executes.
        :param kf: key matched against known_findings.json (None = never a known finding).
        """
        rec = self.violations.setdefault(sig, dict(count=0, cases=[], kf=kf))
        rec["count"] += 1
        if rec["kf"] != kf:  # one sig must map to one known-finding key
            rec["kf"] = None if (rec["kf"] is None or kf is None) else rec["kf"]
        if len(rec["cases"]) < MAX_CASES_PER_SIG:
            rec["cases"].append(
                dict(case=case, observed=_j(observed), expected=_j(expected), msg=msg)
            )

    # ------------------------------------------------------------ merge
    def merge(self, other: "Ctx") -> None:
        self.evaluations += other.evaluations
        self.nontrivial |= other.nontrivial
        self.nontrivial_counted += other.nontrivial_counted
        for k, v in other.outcomes.items():
            self.outcomes[k] = self.outcomes.get(k, 0) + v
        for k, v in other.extra.items():
            self.extra[k] = self.extra.get(k, 0) + v
        for k, v in other.samples.items():
            lst = self.samples.setdefault(k, [])
            for s in v:
                if len(lst) < MAX_SAMPLES_PER_LABEL:
                    lst.append(s)
        self.states |= other.states
        self.transitions += other.transitions
        self.traces += other.traces
        for k, v in other.caps.items():
            self.caps[k] = self.caps.get(k, 0) + v
        for sig, rec in other.violations.items():
            mine = self.violations.setdefault(sig, dict(count=0, cases=[], kf=rec["kf"]))
            mine["count"] += rec["count"]
            if mine["kf"] != rec["kf"]:
                mine["kf"] = None
            for c in rec["cases"]:
                if len(mine["cases"]) < MAX_CASES_PER_SIG:
                    mine["cases"].append(c)
        self.notes.update(other.notes)

    @property
    def distinct_nontrivial(self) -> int:
        return len(self.nontrivial) + self.nontrivial_counted


def _j(obj):
    """Make obj JSON-able (best effort, for replay files)."""
    try:
        json.dumps(obj)
        return obj
    except (TypeError, ValueError):
        if isinstance(obj, dict):
            return {str(k): _j(v) for k, v in obj.items()}
        if isinstance(obj, (list, tuple, set, frozenset)):
            return [_j(v) for v in obj]
        return repr(obj)
