"""Small shared helpers for checks."""
from __future__ import annotations

import logging
from contextlib import contextmanager


class _ListHandler(logging.Handler):
    def __init__(self):
        super().__init__(level=logging.DEBUG)
        self.records = []

    def emit(self, record):
        try:
            msg = record.getMessage()
        except Exception:  # noqa
            msg = str(record.msg)
        self.records.append((record.levelno, msg))


@contextmanager
def capture_logs(level=logging.DEBUG):
    """Collect (levelno, message) of every record that reaches the root logger."""
    root = logging.getLogger()
    old_level, old_handlers, old_disable = root.level, root.handlers[:], logging.root.manager.disable
    handler = _ListHandler()
    root.handlers[:] = [handler]
    root.setLevel(level)
    logging.disable(logging.NOTSET)
    try:
        yield handler.records
    finally:
        root.handlers[:] = old_handlers
        root.setLevel(old_level)
        logging.disable(old_disable)
