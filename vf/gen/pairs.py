"""Ordered pairs (top, bottom) of ACEs for the shadow properties C03 / C11.

A pair is described by deviations from a covering base pair in at most d of the 16 field positions
(8 fields x {top, bottom}); every deviating position ranges over its complete alphabet.
Real Ace objects are built once per worker process and cached by their description.
"""
from __future__ import annotations

from itertools import combinations, product

from vf.gen import alpha as G

PFIELDS = ("action", "proto", "src", "sport", "dst", "dport", "flags", "logs")
POSITIONS = [(side, f) for side in ("top", "bot") for f in PFIELDS]
SKIPS = [None, ["addrgroup"], ["nc_wildcard"], ["addrgroup", "nc_wildcard"],
         ["nc_wildcard", "addrgroup"]]

_ACE_CACHE: dict = {}
_RULE_CACHE: dict = {}


def alphabets(seed: int, platform: str, groups: bool, small: bool = False):
    """Field alphabets of the pair space; `small` = the reduced alphabets used for the deepest
    deviation bound (three deviating positions)."""
    al = G.field_alphabets(seed, platform, groups=groups, small=small)
    return {f: al[f] for f in PFIELDS}


def base_pairs(seed: int):
    anyaddr = G.addr_alphabet(seed)[0]
    tcp = G.AceX("permit", 6, anyaddr, G.PortX(), anyaddr, G.PortX())
    ip = G.AceX("permit", 0, anyaddr, G.PortX(), anyaddr, G.PortX())
    return [(tcp, tcp), (ip, tcp)]


def position_sets(d: int):
    out = [()]
    for k in range(1, d + 1):
        out.extend(combinations(range(len(POSITIONS)), k))
    return out


def pairs_for(base, posset, alph):
    """Yield (top AceX, bottom AceX) for every assignment of the positions in `posset`."""
    top0, bot0 = base
    pools = []
    for pi in posset:
        side, f = POSITIONS[pi]
        cur = getattr(top0 if side == "top" else bot0, f)
        pools.append([v for v in alph[f] if v != cur])
    for combo in product(*pools):
        kt = {f: getattr(top0, f) for f in PFIELDS}
        kb = {f: getattr(bot0, f) for f in PFIELDS}
        for pi, val in zip(posset, combo):
            side, f = POSITIONS[pi]
            (kt if side == "top" else kb)[f] = val
        top, bot = G.AceX(**kt), G.AceX(**kb)
        if top.valid("ios") and bot.valid("ios"):
            yield top, bot


def real_ace(acex, platform: str, **cfg):
    """The library object for an abstract entry (members attached), cached per process."""
    key = (platform, acex, tuple(sorted(cfg.items())))
    if key not in _ACE_CACHE:
        from cisco_acl import Ace

        ace = Ace(acex.text(platform), platform=platform, **cfg)
        for side, adr in (("srcaddr", acex.src), ("dstaddr", acex.dst)):
            if adr.group:
                getattr(ace, side).items = [m.spellings(platform)[0][0] for m in adr.members]
        _ACE_CACHE[key] = ace
    return _ACE_CACHE[key]


def rule_of(acex):
    if acex not in _RULE_CACHE:
        _RULE_CACHE[acex] = acex.rule(resolve_groups=True)
    return _RULE_CACHE[acex]


def describe_pair(top, bot, platform, **cfg):
    d = dict(platform=platform, top=top.text(platform), bottom=bot.text(platform),
             top_members=_members(top, platform), bottom_members=_members(bot, platform))
    if cfg:
        d["cfg"] = cfg
    return d


def _members(acex, platform):
    out = {}
    for side, adr in (("src", acex.src), ("dst", acex.dst)):
        if adr.group:
            out[side] = [m.spellings(platform)[0][0] for m in adr.members]
    return out


def build_from_description(desc):
    """Rebuild real Ace objects from a replay description (no abstract syntax needed)."""
    from cisco_acl import Ace

    res = []
    for which in ("top", "bottom"):
        ace = Ace(desc[which], platform=desc["platform"], **(desc.get("cfg") or {}))
        mem = desc.get(f"{which}_members") or {}
        if "src" in mem:
            ace.srcaddr.items = list(mem["src"])
        if "dst" in mem:
            ace.dstaddr.items = list(mem["dst"])
        res.append(ace)
    return res
