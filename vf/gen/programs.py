"""ACLs as programs: ordered lists of items (ACEs with known meaning, remarks, headings).

An item is an `Item`; `build_acl` creates the real Acl from text and attaches group members.
"""
from __future__ import annotations

from dataclasses import dataclass

from vf.gen import alpha as G
from vf.refsem.packets import Rule


@dataclass(frozen=True)
class Item:
    """One ACL line with its meaning."""

    label: str
    acex: G.AceX = None  # None for remarks
    remark: str = ""

    def text(self, platform: str, acl_type: str = "extended") -> str:
        if self.acex is None:
            return f"remark {self.remark}"
        if acl_type == "standard":
            x = self.acex
            if x.proto != 0 or x.dst.label != "any" or x.sport.op or x.dport.op or x.flags or x.src.group:
                raise ValueError(f"harness: {self.label} cannot be written as a standard entry")
            return f"{x.action} {x.src.spellings(platform)[0][0]}" + (" log" if "log" in x.logs else "")
        return self.acex.text(platform)

    def rule(self) -> Rule:
        return self.acex.rule(resolve_groups=True)

    @property
    def is_ace(self) -> bool:
        return self.acex is not None


def header(platform: str, name: str = "A", acl_type: str = "extended") -> str:
    return f"ip access-list {acl_type} {name}" if platform == "ios" else f"ip access-list {name}"


def build_acl(items, platform: str, group_by: str = "", numbered: bool = False, acl_type="extended",
              **kwargs):
    """Real Acl for a list of Items; group members attached; optionally resequenced 10,20,..."""
    from cisco_acl import Ace, Acl

    text = header(platform, acl_type=acl_type) + "\n" + \
        "\n".join(" " + it.text(platform, acl_type) for it in items)
    acl = Acl(text, platform=platform, **kwargs)
    aces = [o for o in acl.items if isinstance(o, Ace)]
    want = [it for it in items if it.is_ace]
    if len(aces) != len(want):
        raise AssertionError(f"harness: {len(aces)} ACEs parsed from {len(want)} ACE items")
    for ace, it in zip(aces, want):
        for side, adr in (("srcaddr", it.acex.src), ("dstaddr", it.acex.dst)):
            if adr.group:
                getattr(ace, side).items = [m.spellings(platform)[0][0] for m in adr.members]
    if numbered:
        acl.resequence(10, 10)
    if group_by:
        acl.group(group_by)
    return acl


def flat_lines(acl):
    """Rendered body lines of an ACL, flattened through groups (from objects, not from text)."""
    from cisco_acl import AceGroup

    out = []

    def walk(items):
        for o in items:
            if isinstance(o, AceGroup):
                walk(o.items)
            else:
                out.append(o.line)

    walk(acl.items)
    return out


def strip_seq(line: str) -> str:
    toks = line.split()
    if toks and toks[0].isdigit():
        toks = toks[1:]
    return " ".join(toks)


def blocks(acl):
    """[(block name or None for a top-level single item, [lines])]."""
    from cisco_acl import AceGroup

    out = []
    for o in acl.items:
        if isinstance(o, AceGroup):
            out.append((o.name, [i.line for i in o.items]))
        else:
            out.append((None, [o.line]))
    return out
