"""Bounded generators: one abstract syntax, many spellings (DESIGN 2.3).

Every generated text comes with its abstract meaning (a refsem Rule) BY CONSTRUCTION - the
meaning is never obtained from the library.  The only thing read from the library is the
vocabulary of port names a (platform, version) accepts (checked for closure by C09).
"""
from __future__ import annotations

from dataclasses import dataclass
from functools import lru_cache
from itertools import combinations, product

from vf.refsem import golden
from vf.refsem import sets as S
from vf.refsem.packets import Rule

PLATFORMS = ("ios", "nxos")
VERSIONS = ("", "15.2(4)M", "16.9.6", "9.3(8)")


# ------------------------------------------------------------------------------- configurations


def configs(tier: str, seed: int = 0):
    """(platform, version, port_nr, protocol_nr) combinations."""
    out = []
    if tier == "thorough":
        for plat, ver, pn, prn in product(PLATFORMS, VERSIONS, (False, True), (False, True)):
            out.append(dict(platform=plat, version=ver, port_nr=pn, protocol_nr=prn))
        return out
    i = seed
    for plat, pn, prn in product(PLATFORMS, (False, True), (False, True)):
        out.append(dict(platform=plat, version=VERSIONS[i % 4], port_nr=pn, protocol_nr=prn))
        i += 1
    return out


@lru_cache(maxsize=None)
def port_vocab(platform: str, version: str):
    """{"tcp": frozenset(names), "udp": ...} the library accepts for this configuration."""
    from cisco_acl.port_name import PortName

    return {p: frozenset(PortName(protocol=p, platform=platform, version=version).names())
            for p in ("tcp", "udp")}


# ------------------------------------------------------------------------------------ addresses


def window(seed: int) -> int:
    """Base of the seed-selected /24 all 'local' addresses live in."""
    return S.ip2int(f"10.{(20 + 7 * seed) % 250}.{(30 + 13 * seed) % 250}.0")


@dataclass(frozen=True)
class Addr:
    """Abstract address: a union of cubes, optionally a named group with members."""

    label: str
    cubes: tuple
    group: str = ""
    members: tuple = ()  # tuple of Addr for groups

    def spellings(self, platform: str):
        """[(text, native?)] - first entry is the canonical native spelling."""
        if self.group:
            kw = "object-group" if platform == "ios" else "addrgroup"
            return [(f"{kw} {self.group}", True)]
        (base, wild), = self.cubes
        ip = S.int2ip
        out = []
        contiguous = wild & (wild + 1) == 0
        length = 32 - bin(wild).count("1") if contiguous else None
        dirty = base | (wild & 0x01020304) | (wild & 1)  # some bits under the wildcard
        if wild == S.ALL32:
            out = [("any", True), ("0.0.0.0 255.255.255.255", True),
                   ("1.2.3.4 255.255.255.255", True), ("0.0.0.0/0", platform == "nxos")]
        elif wild == 0:
            out = [(f"host {ip(base)}", True), (f"{ip(base)} 0.0.0.0", True),
                   (f"{ip(base)}/32", platform == "nxos")]
        elif contiguous:
            if platform == "ios":
                out = [(f"{ip(base)} {ip(wild)}", True), (f"{ip(dirty)} {ip(wild)}", True),
                       (f"{ip(base)}/{length}", False), (f"{ip(dirty)}/{length}", False)]
            else:
                out = [(f"{ip(base)}/{length}", True), (f"{ip(dirty)}/{length}", True),
                       (f"{ip(base)} {ip(wild)}", True), (f"{ip(dirty)} {ip(wild)}", True)]
        else:
            out = [(f"{ip(base)} {ip(wild)}", True), (f"{ip(dirty)} {ip(wild)}", True)]
        seen, res = set(), []
        for text, native in out:
            if text not in seen:
                seen.add(text)
                res.append((text, native))
        return res

    @property
    def is_nc(self) -> bool:
        return any(w & (w + 1) for _, w in self.cubes)


def mk(label, base, wild):
    return Addr(label, (S.cube(base, wild),))


def addr_alphabet(seed: int, groups: bool = False, small: bool = False):
    """The semantic address alphabet (DESIGN 2.3)."""
    w = window(seed)
    ext = S.ip2int("172.16.5.0")
    out = [
        mk("any", 0, S.ALL32),
        mk("host1", w + 1, 0),
        mk("host2", w + 2, 0),
        mk("net30", w, 3),
        mk("net24", w, 255),
    ]
    if not small:
        out += [
            mk("net31", w, 1),
            mk("net25hi", w + 128, 127),
            mk("net8", w & 0xFF000000, 0x00FFFFFF),
            mk("net1", 0, 0x7FFFFFFF),
            mk("ext24", ext, 255),
            mk("host_ext", ext + 9, 0),
            mk("nc_low_run_plus_bit", w, 0x00000103),       # 0.0.1.3
            mk("nc_8bits_no_run", w, 0x0000FF00),           # 0.0.255.0
            mk("nc_odd_even", w, 0x000000FE),               # 0.0.0.254
            mk("nc_top_bit", w, 0x80000000),                # 128.0.0.0
            mk("nc_two_octets", w, 0x00FF00FF),             # 0.255.0.255
            # same base and same stray bit as nc_low_run_plus_bit, no contiguous tail
            mk("nc_bit8_no_tail", w, 0x00000100),
            # same masks on another base: results must not be shared between objects
            mk("nc_low_run_plus_bit_ext", ext, 0x00000103),
            mk("nc_odd_even_ext", ext + 1, 0x000000FE),
        ]
    else:
        out += [mk("nc_low_run_plus_bit", w, 0x00000103)]
    if groups:
        out += group_alphabet(seed)
    return out


def group_alphabet(seed: int):
    w = window(seed)
    h1, h2 = mk("host1", w + 1, 0), mk("host2", w + 2, 0)
    n30 = mk("net30", w, 3)
    n25 = mk("net25hi", w + 128, 127)
    n25lo = mk("net25lo", w, 127)
    nc = mk("nc_low_run_plus_bit", w, 0x00000103)

    def grp(name, *members):
        return Addr(f"group:{name}", tuple(c for m in members for c in m.cubes), name,
                    tuple(members))

    ext = mk("ext24", S.ip2int("172.16.5.0"), 255)
    return [grp("G0"), grp("G1", n30), grp("G3", h1, n25, nc),
            # the NAME "GH" with a wider member, listed BEFORE the narrow GH: equal text, other
            # meaning (an answer must never be shared between objects by their text); never in one
            # ACL with the narrow GH.  ({a.group: a} dictionaries keep the narrow one.)
            Addr("group:GH(wide)", (S.cube(w, 255),), "GH", (mk("net24", w, 255),)),
            grp("GH", h1, h2),
            grp("GU", n25lo, n25),  # GU: union of two halves = the /24, no single member is
            grp("GE", ext)]         # GE: a network outside the window


# ---------------------------------------------------------------------------------------- ports


@dataclass(frozen=True)
class PortX:
    """Abstract port expression; op == "" means absent."""

    op: str = ""
    operands: tuple = ()

    @property
    def mask(self) -> int:
        return S.PORT_ANY if not self.op else S.port_expr_mask(self.op, self.operands)

    def spellings(self, proto: int, platform: str, version: str):
        """[(text, native?)]: numbers, and names where the configuration has them."""
        if not self.op:
            return [("", True)]
        nums = " ".join(map(str, self.operands))
        out = [(f"{self.op} {nums}", True)]
        pname = "tcp" if proto == 6 else "udp"
        vocab = port_vocab(platform, version)[pname]
        table = golden.PORTS[pname]
        named = []
        for n in self.operands:
            cands = sorted(k for k, v in table.items() if v == n and k in vocab)
            named.append(cands)
        if any(named):
            first = " ".join(c[0] if c else str(n) for c, n in zip(named, self.operands))
            out.append((f"{self.op} {first}", True))
            if any(len(c) > 1 for c in named):  # alias spelling
                last = " ".join(c[-1] if c else str(n) for c, n in zip(named, self.operands))
                out.append((f"{self.op} {last}", True))
        return out

    @property
    def heavy(self) -> bool:
        return self.op in ("neq", "lt", "gt") or (self.op == "range" and
                                                  abs(self.operands[1] - self.operands[0]) > 5000)


SEED_PORTS = [(80, 443, 8080), (22, 3389, 5060), (53, 1812, 20000), (123, 1024, 49152)]


def port_alphabet(seed: int, platform: str = "ios", small: bool = False):
    p, q, r = SEED_PORTS[seed % len(SEED_PORTS)]
    out = [PortX(), PortX("eq", (p,)), PortX("range", (p, q)), PortX("gt", (q,)), PortX("lt", (q,)),
           PortX("neq", (p,))]
    if not small:
        out += [PortX("range", (q, p)), PortX("eq", (179,)), PortX("eq", (514,)),
                PortX("eq", (1,)), PortX("eq", (65535,)), PortX("lt", (1,)), PortX("lt", (0,)),
                PortX("lt", (2,)),
                PortX("gt", (65534,)), PortX("gt", (65535,)), PortX("range", (1, 65535)),
                PortX("range", (r, r))]
    else:
        out += [PortX("lt", (1,))]
    if platform == "ios":
        out += [PortX("eq", (p, q)), PortX("neq", (p, q))]
        if not small:
            out += [PortX("eq", (p, q, r)), PortX("eq", (1, 2, 3, 4, 5, 6, 7, 8, 9, 10))]
    return out


# ------------------------------------------------------------------------------------ the ACE

PROTOS = [(0, ("ip",)), (1, ("icmp",)), (6, ("tcp",)), (17, ("udp",)), (47, ("gre",)),
          (51, ("ahp", "ah")), (4, ("ipip",)), (41, ("ipv6",)), (255, ())]
FLAGS = [(), ("ack",), ("syn",), ("ack", "rst"), ("ack", "syn"),
         ("ack", "fin", "psh", "rst", "syn", "urg")]
LOGS = [(), ("log",), ("log-input",)]
SEQS = [(0, ""), (0, "0"), (1, "1"), (10, "10"), (10, "00010"), (4294967295, "4294967295")]
SPACING = ["single", "double_tab", "lead_trail"]


def proto_spellings(number: int, platform: str):
    """[(text, native?)] for a protocol number on a platform (names from the reader's tables)."""
    from vf.refsem.reader import PROTO_NAMES

    out = [(str(number), True)]
    for name, n in golden.PROTO.items():
        if n == number and name in PROTO_NAMES[platform]:
            out.append((name, True))
        elif n == number and name in PROTO_NAMES["ios"] + PROTO_NAMES["nxos"]:
            out.append((name, False))  # name of the other platform: accepted foreign spelling
    return out


@dataclass(frozen=True)
class AceX:
    """Abstract ACE."""

    action: str = "permit"
    proto: int = 6
    src: Addr = None
    sport: PortX = PortX()
    dst: Addr = None
    dport: PortX = PortX()
    flags: tuple = ()
    logs: tuple = ()
    seq: int = 0

    def valid(self, platform: str) -> bool:
        if (self.sport.op or self.dport.op) and self.proto not in (6, 17):
            return False
        if self.flags and self.proto != 6:
            return False
        if platform == "nxos":
            for px in (self.sport, self.dport):
                if px.op in ("eq", "neq") and len(px.operands) > 1:
                    return False
        return True

    def rule(self, resolve_groups: bool = True) -> Rule:
        """:param resolve_groups: False = a group reference denotes nothing but its name (text
        without attached members), True = the union of its members."""
        src = self.src.cubes if resolve_groups or not self.src.group else ()
        dst = self.dst.cubes if resolve_groups or not self.dst.group else ()
        return Rule(self.action, self.proto, src, self.sport.mask, dst,
                    self.dport.mask, S.flags_mask(self.flags), self.seq, self.logs, self.flags,
                    self.src.group, self.dst.group)

    def text(self, platform, version="", sp=None, spacing="single"):
        """Render with spelling choices sp = dict(field -> index); missing = canonical (0)."""
        sp = sp or {}

        def pick(lst, key):
            return lst[min(sp.get(key, 0), len(lst) - 1)][0]

        seq_text = sp.get("seq_text")
        if seq_text is None:
            seq_text = str(self.seq) if self.seq else ""
        toks = [seq_text, self.action,
                pick(proto_spellings(self.proto, platform), "proto") if "proto" in sp
                else _default_proto(self.proto, platform),
                pick(self.src.spellings(platform), "src"),
                pick(self.sport.spellings(self.proto, platform, version), "sport"),
                pick(self.dst.spellings(platform), "dst"),
                pick(self.dport.spellings(self.proto, platform, version), "dport"),
                " ".join(self.flags), " ".join(self.logs)]
        toks = [t for t in toks if t]
        if spacing == "single":
            return " ".join(toks)
        if spacing == "double_tab":
            return " \t ".join(" \t ".join(t.split()) for t in toks)
        return "  " + " ".join(toks) + " \t "


def _default_proto(number: int, platform: str) -> str:
    sps = proto_spellings(number, platform)
    for text, native in sps[1:]:
        if native:
            return text
    return sps[0][0]


def field_alphabets(seed: int, platform: str, groups=False, small=False):
    """dict field -> list of abstract values."""
    return dict(
        action=["permit", "deny"],
        proto=[n for n, _ in PROTOS],
        src=addr_alphabet(seed, groups, small),
        sport=port_alphabet(seed, platform, small),
        dst=addr_alphabet(seed, groups, small),
        dport=port_alphabet(seed + 1, platform, small),
        flags=FLAGS if not small else FLAGS[:4],
        logs=LOGS if not small else LOGS[:2],
        seq=sorted({s for s, _ in SEQS}),
    )


def bases(seed: int):
    """Base entries the deviation bound is measured from."""
    al = {a.label: a for a in addr_alphabet(seed)}
    p, q, _ = SEED_PORTS[seed % len(SEED_PORTS)]
    return [
        AceX("permit", 6, al["any"], PortX(), al["any"], PortX()),
        AceX("deny", 17, al["host1"], PortX("eq", (53,)), al["net24"], PortX("range", (1024, 2048)),
             (), ("log",)),
        AceX("permit", 0, al["net24"], PortX(), al["any"], PortX()),
    ]


FIELDS = ("action", "proto", "src", "sport", "dst", "dport", "flags", "logs", "seq")


def deviations(base: AceX, alph: dict, d: int):
    """Every AceX differing from `base` in at most d fields (each over its full alphabet).

    Yields (acex, tuple of deviating field names).  The base itself is yielded first.
    """
    yield base, ()
    for k in range(1, d + 1):
        for fields in combinations(FIELDS, k):
            pools = [[v for v in alph[f] if v != getattr(base, f)] for f in fields]
            for combo in product(*pools):
                kw = {f: getattr(base, f) for f in FIELDS}
                kw.update(dict(zip(fields, combo)))
                yield AceX(**kw), fields
