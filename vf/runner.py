"""Runner: ./vcheck <ID> [--tier quick|thorough] [--replay FILE] [--jobs N] [--only SUBSTR]

Contract (see DESIGN.md 2.1): exit 0 = property held on everything explored (known findings are
printed as KNOWN-FINDING lines), exit 1 + "VIOLATION property=<id> replay=<path>" otherwise,
exit 2 = the harness itself is broken (vacuous exploration, crash in a check) - never a VIOLATION.
"""
from __future__ import annotations

import argparse
import importlib
import json
import multiprocessing as mp
import os
import sys
import time
import traceback

HERE = os.path.dirname(os.path.dirname(os.path.abspath(__file__)))
REPO = os.path.realpath(os.environ.get("VERIF_REPO", "/repo"))
if sys.path[0] != REPO:
    sys.path.insert(0, REPO)

from vf.ctx import Ctx, HarnessError, digest  # noqa: E402

ALL_IDS = [f"C{i:02d}" for i in range(1, 21)]
_MOD = None
_TIER = "quick"
_SEED = 0
_UNITS: list = []


def _assert_repo() -> None:
    import cisco_acl

    path = os.path.realpath(cisco_acl.__file__)
    if not path.startswith(REPO + os.sep):
        raise HarnessError(f"cisco_acl imported from {path}, expected under {REPO}")


def _worker_init() -> None:
    import logging

    logging.getLogger().handlers[:] = [logging.NullHandler()]
    logging.getLogger().setLevel(logging.CRITICAL + 1)


def _run_unit(idx: int):
    unit = _UNITS[idx]
    ctx = Ctx(_TIER, _SEED)
    try:
        _MOD.run_unit(unit, ctx)
        return idx, ctx, None
    except BaseException:  # noqa - harness bug or timeout outside a guarded call
        return idx, ctx, f"unit {unit!r}\n{traceback.format_exc()}"


def load_known(prop: str):
    path = os.path.join(HERE, "known_findings.json")
    if not os.path.exists(path):
        return []
    with open(path, encoding="utf-8") as fh:
        data = json.load(fh)
    return [d for d in data.get("findings", []) if d.get("property") == prop]


def write_replay(prop: str, sig: str, rec: dict, idx: int) -> str:
    case = rec["cases"][idx]
    body = dict(property=prop, signature=sig, count=rec["count"], **case)
    name = f"{digest(json.dumps([sig, case['case']], sort_keys=True, default=repr)):016x}.json"
    d = os.path.join(HERE, "replays", prop)
    os.makedirs(d, exist_ok=True)
    path = os.path.join(d, name)
    body["how_to_replay"] = f"cd /verif && ./vcheck {prop} --replay {path}"
    with open(path, "w", encoding="utf-8") as fh:
        json.dump(body, fh, indent=1, default=repr)
    return path


def main(argv=None) -> int:
    global _MOD, _TIER, _SEED, _UNITS
    ap = argparse.ArgumentParser()
    ap.add_argument("id")
    ap.add_argument("--tier", default=os.environ.get("VERIF_TIER") or "quick",
                    choices=["quick", "thorough"])
    ap.add_argument("--replay")
    ap.add_argument("--jobs", type=int, default=int(os.environ.get("VERIF_JOBS", "16")))
    ap.add_argument("--only", default="", help="run only units whose repr contains this text")
    ap.add_argument("--no-evidence", action="store_true")
    args = ap.parse_args(argv)

    if args.id == "selftest":
        from vf import selftest

        return selftest.main()
    if args.id == "all":
        rc = 0
        for cid in ALL_IDS:
            rc = max(rc, main([cid, "--tier", args.tier, "--jobs", str(args.jobs)]))
        return rc

    prop = args.id.upper()
    try:
        seed = int(os.environ.get("VERIF_SEED", "0") or 0)
    except ValueError:
        seed = digest(os.environ["VERIF_SEED"]) % 1000
    _TIER, _SEED = args.tier, seed
    started = time.time()
    try:
        _assert_repo()
        _MOD = importlib.import_module(f"vf.checks.{prop.lower()}")
    except Exception:  # noqa
        print(f"HARNESS-ERROR property={prop}\n{traceback.format_exc()}")
        return 2

    # ------------------------------------------------------------ replay of one stored case
    if args.replay:
        with open(args.replay, encoding="utf-8") as fh:
            body = json.load(fh)
        ctx = Ctx(_TIER, seed)
        _MOD.replay(body["case"], ctx)
        if ctx.violations:
            for sig, rec in ctx.violations.items():
                print(f"REPRODUCED {sig}: {json.dumps(rec['cases'][0], default=repr)[:2000]}")
            print(f"VIOLATION property={prop} replay={args.replay}")
            return 1
        print(f"replay of {args.replay}: no violation on this tree")
        return 0

    # ------------------------------------------------------------ exploration
    _UNITS = list(_MOD.units(_TIER, seed))
    if args.only:
        _UNITS = [u for u in _UNITS if args.only in repr(u)]
    total = Ctx(_TIER, seed)
    errors = []
    if args.jobs <= 1 or len(_UNITS) <= 1:
        _worker_init()
        results = map(_run_unit, range(len(_UNITS)))
        pool = None
    else:
        pool = mp.get_context("fork").Pool(min(args.jobs, len(_UNITS)), initializer=_worker_init)
        results = pool.imap_unordered(_run_unit, range(len(_UNITS)), chunksize=1)
    parts = {}
    for idx, ctx, err in results:
        parts[idx] = ctx
        if err:
            errors.append(err)
    if pool:
        pool.close()
        pool.join()
    for idx in sorted(parts):  # deterministic merge order: simplest units first
        total.merge(parts[idx])
    wall = time.time() - started

    # ------------------------------------------------------------ verdict
    known = [d for d in load_known(prop) if d.get("status") == "known"]
    known_keys = {d["key"]: d for d in known}
    real, matched = {}, {}
    for sig, rec in total.violations.items():
        if rec["kf"] is not None and rec["kf"] in known_keys:
            matched.setdefault(rec["kf"], []).append((sig, rec))
        else:
            real[sig] = rec

    required = list(getattr(_MOD, "REQUIRED", []))
    missing = [] if args.only else [r for r in required if not total.outcomes.get(r)]
    level = getattr(_MOD, "LEVEL", "exploration")
    describe = getattr(_MOD, "describe", lambda t, s: {})(_TIER, seed)
    exhaustive = not total.caps and not errors and not args.only

    samples = []
    for label, lst in sorted(total.samples.items()):
        for s in lst:
            samples.append({"class": label, "case": s})
    coverage = dict(
        evaluations=total.evaluations,
        distinct_nontrivial=total.distinct_nontrivial,
        rule=getattr(_MOD, "RULE", ""),
        samples=samples[:40],
        exhaustive=exhaustive,
        units=len(_UNITS),
        outcomes=dict(sorted(total.outcomes.items())),
        caps_hit=total.caps,
        bounds=describe,
        measured=dict(sorted(total.extra.items())),
    )
    if level == "model_checking":
        coverage.update(
            states=len(total.states),
            transitions=total.transitions,
            traces_validated_against_impl=total.traces,
        )
    evidence = dict(
        property_id=prop,
        tier=_TIER,
        seed=seed,
        level=level,
        coverage=coverage,
        assumptions=list(getattr(_MOD, "ASSUMPTIONS", [])),
        wall_s=round(wall, 2),
        violations=sum(r["count"] for r in real.values()),
        known_findings_observed=sorted(matched),
        repo=REPO,
    )
    if not args.no_evidence and not args.only:
        os.makedirs(os.path.join(HERE, "evidence"), exist_ok=True)
        with open(os.path.join(HERE, "evidence", f"{prop}.json"), "w", encoding="utf-8") as fh:
            json.dump(evidence, fh, indent=1, default=repr)

    print(f"[{prop}] tier={_TIER} seed={seed} units={len(_UNITS)} evaluations={total.evaluations} "
          f"distinct_nontrivial={total.distinct_nontrivial} "
          + (f"states={len(total.states)} transitions={total.transitions} traces={total.traces} "
             if level == "model_checking" else "")
          + f"wall={wall:.1f}s exhaustive={exhaustive}")
    print(f"[{prop}] outcomes: " + ", ".join(f"{k}={v}" for k, v in sorted(total.outcomes.items())))

    if errors:
        print(f"HARNESS-ERROR property={prop} ({len(errors)} unit(s) crashed)")
        print(errors[0])
        return 2
    for key, items in sorted(matched.items()):
        n = sum(rec["count"] for _, rec in items)
        print(f"KNOWN-FINDING: property={prop} {known_keys[key]['what']} [{key}; {n} case(s) this run]")
    if real:
        for sig, rec in sorted(real.items(), key=lambda kv: kv[0]):
            path = write_replay(prop, sig, rec, 0)
            for i in range(1, len(rec["cases"])):
                write_replay(prop, sig, rec, i)
            first = rec["cases"][0]
            print(f"  {sig}: {rec['count']} case(s); first: {json.dumps(first, default=repr)[:1500]}")
            print(f"VIOLATION property={prop} replay={path}")
        return 1
    if missing:
        print(f"HARNESS-ERROR property={prop} vacuous exploration: outcome class(es) {missing} empty")
        return 2
    print(f"[{prop}] OK")
    return 0


if __name__ == "__main__":
    sys.exit(main())
