#!/bin/bash
# validate MANIFEST.json and every evidence file against the schemas (uses the tooling venv)
python3-vt - <<'P'
import json, jsonschema, glob, sys
m = json.load(open('/verif/MANIFEST.json'))
jsonschema.validate(m, json.load(open('/root/.vp/MANIFEST.schema.json')))
es = json.load(open('/root/.vp/EVIDENCE.schema.json'))
bad = 0
for c in m['checks']:
    try:
        jsonschema.validate(json.load(open(c['evidence_file'])), es)
    except Exception as ex:
        bad += 1; print('BAD', c['evidence_file'], str(ex)[:300])
ids = {c['property_id'] for c in m['checks']} | {c['property_id'] for c in m.get('not_applicable', [])}
assert ids == {f"C{i:02d}" for i in range(1, 21)}, ids
print('manifest ok; evidence bad =', bad)
sys.exit(1 if bad else 0)
P
