#!/usr/bin/env python3
"""Create mutants/<name>.patch from textual replacements against /repo's current working tree.

usage: tools/mkmut.py <name> <props> <note>  < spec.json
spec.json: [{"file": "cisco_acl/port.py", "old": "...", "new": "..."}, ...]  (old must occur once)
"""
import difflib
import json
import os
import sys

HERE = os.path.dirname(os.path.dirname(os.path.abspath(__file__)))


def main():
    name, props, note = sys.argv[1:4]
    spec = json.load(sys.stdin)
    out = [f"# property: {props}\n", f"# note: {note}\n"]
    by_file = {}
    for ed in spec:
        path = os.path.join("/repo", ed["file"])
        text = by_file.get(ed["file"]) or open(path).read()
        if text.count(ed["old"]) != 1:
            raise SystemExit(f"{ed['file']}: 'old' occurs {text.count(ed['old'])} times")
        by_file[ed["file"]] = text.replace(ed["old"], ed["new"])
    for rel, new in by_file.items():
        old = open(os.path.join("/repo", rel)).read()
        out.extend(difflib.unified_diff(old.splitlines(True), new.splitlines(True),
                                        f"a/{rel}", f"b/{rel}"))
    with open(os.path.join(HERE, "mutants", f"{name}.patch"), "w") as fh:
        fh.writelines(out)
    print("wrote", name)


if __name__ == "__main__":
    main()
