#!/usr/bin/env python3
"""Re-create seeded/<name>/patch.diff against /repo's current tree from textual replacements
(needed when a fix: commit touched the same lines), re-verify tests + demo, note it in meta.json.

usage: tools/seed_rebase.py <name> [demo file]  < spec.json   (spec as for tools/mkmut.py)
"""
import json
import os
import shutil
import subprocess
import sys
import tempfile

HERE = os.path.dirname(os.path.dirname(os.path.abspath(__file__)))


def sh(cmd, **kw):
    return subprocess.run(cmd, shell=True, capture_output=True, text=True, **kw)


def main():
    name = sys.argv[1]
    demo_name = sys.argv[2] if len(sys.argv) > 2 else "demo.py"
    spec = json.load(sys.stdin)
    dst = os.path.join(HERE, "seeded", name)
    tmp = tempfile.mkdtemp(prefix="vf_rebase_")
    repo = os.path.join(tmp, "repo")
    try:
        sh(f"rsync -a --exclude .git /repo/ {repo}/")
        for ed in spec:
            path = os.path.join(repo, ed["file"])
            text = open(path).read()
            if text.count(ed["old"]) != 1:
                raise SystemExit(f"{ed['file']}: 'old' occurs {text.count(ed['old'])} times")
            open(path, "w").write(text.replace(ed["old"], ed["new"]))
        r = sh("/venv/bin/python -m pytest -q -p no:cacheprovider --timeout=900 2>&1 | tail -1", cwd=repo)
        tests = r.stdout.strip()
        demo = os.path.join(dst, demo_name)
        r1 = sh(f"/venv/bin/python {demo} {repo}", cwd=tmp)
        r0 = sh(f"/venv/bin/python {demo} /repo", cwd=tmp)
        print(tests, "| demo changed:", r1.returncode, "pristine:", r0.returncode)
        if not ("327 passed" in tests and "1 failed" in tests and r1.returncode == 1
                and r0.returncode == 0):
            print((r1.stdout + r1.stderr)[-500:])
            print("NOT ACCEPTED")
            return 1
        r = sh(f"diff -ruN -x __pycache__ -x '*.pyc' /repo/cisco_acl {repo}/cisco_acl")
        open(os.path.join(dst, "patch.diff"), "w").write(
            r.stdout.replace(f"{repo}/", "b/").replace("/repo/", "a/"))
        m = json.load(open(os.path.join(dst, "meta.json")))
        head = sh("git -C /repo rev-parse --short HEAD").stdout.strip()
        m.setdefault("rebased", []).append(
            f"re-created against /repo {head} after a fix: commit touched the same lines; "
            f"re-verified: {tests}; {demo_name} exit 1 with the change, 0 without")
        json.dump(m, open(os.path.join(dst, "meta.json"), "w"), indent=1)
        print("REBASED", name)
        return 0
    finally:
        shutil.rmtree(tmp, ignore_errors=True)


if __name__ == "__main__":
    sys.exit(main())
