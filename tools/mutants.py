#!/usr/bin/env python3
"""Apply each mutants/*.patch (and seeded/*/patch.diff) to a scratch copy of /repo and require the
named check to report a VIOLATION.  Usage: tools/mutants.py [name-substring ...] [--tier quick]

Patch header lines (before the diff):   # property: C05[,C17]   # note: free text
Scratch copies live under /tmp and are removed after each mutant.
"""
import glob
import json
import os
import shutil
import subprocess
import sys
import tempfile

HERE = os.path.dirname(os.path.dirname(os.path.abspath(__file__)))


def props_of(path):
    if path.endswith("patch.diff"):
        meta = json.load(open(os.path.join(os.path.dirname(path), "meta.json")))
        p = meta.get("checks") or meta["property"]
        return p if isinstance(p, list) else [p]
    for line in open(path):
        if line.startswith("# property:"):
            return [x.strip() for x in line.split(":", 1)[1].split(",")]
    raise SystemExit(f"{path}: no '# property:' header")


def main():
    args = [a for a in sys.argv[1:] if not a.startswith("--")]
    tier = "quick"
    if "--tier" in sys.argv:
        tier = sys.argv[sys.argv.index("--tier") + 1]
        args = [a for a in args if a != tier]
    patches = sorted(glob.glob(os.path.join(HERE, "mutants", "*.patch"))
                     + glob.glob(os.path.join(HERE, "seeded", "*", "patch.diff")))
    if args:
        patches = [p for p in patches if any(a in p for a in args)]
    def _obsolete(p):
        if not p.endswith("patch.diff"):
            return False
        return bool(json.load(open(os.path.join(os.path.dirname(p), "meta.json"))).get("obsolete"))
    patches = [p for p in patches if not _obsolete(p)]
    results = []
    for patch in patches:
        name = os.path.relpath(patch, HERE)
        tmp = tempfile.mkdtemp(prefix="vf_mut_")
        try:
            repo = os.path.join(tmp, "repo")
            subprocess.run(["rsync", "-a", "--exclude", ".git", "/repo/", repo + "/"], check=True)
            r = subprocess.run(["patch", "-p1", "-s", "-d", repo, "-i", patch],
                               capture_output=True, text=True)
            if r.returncode:
                results.append((name, "PATCH-FAILED", r.stdout[-300:] + r.stderr[-300:]))
                continue
            verdicts = []
            for prop in props_of(patch):
                env = dict(os.environ, VERIF_REPO=repo)
                r = subprocess.run([os.path.join(HERE, "vcheck"), prop, "--tier", tier,
                                    "--no-evidence"], capture_output=True, text=True, env=env,
                                   cwd=HERE)
                hit = r.returncode == 1 and "VIOLATION property=" + prop in r.stdout
                sigs = [ln.strip().split(":")[0] + ":" + ln.strip().split(":")[1]
                        for ln in r.stdout.splitlines()
                        if ln.startswith("  ") and "case(s)" in ln]
                verdicts.append((prop, "DETECTED" if hit else f"MISSED(rc={r.returncode})", sigs[:4]))
            results.append((name, verdicts, ""))
        finally:
            shutil.rmtree(tmp, ignore_errors=True)
        print(results[-1], flush=True)
    # machine-readable report (merged with earlier partial runs), used by tools/mkmatrix.py
    rep_path = os.path.join(HERE, "mutants_report.json")
    report = json.load(open(rep_path)) if os.path.exists(rep_path) else {}
    for name, verdicts, note in results:
        report[name] = dict(tier=tier, verdicts=verdicts if isinstance(verdicts, list) else str(verdicts),
                            note=note)
    json.dump(report, open(rep_path, "w"), indent=1, sort_keys=True)
    missed = [r for r in results if not isinstance(r[1], list)
              or not any(v[1] == "DETECTED" for v in r[1])]
    print(f"\n{len(results) - len(missed)}/{len(results)} mutants detected")
    for m in missed:
        print("MISSED:", m)
    return 1 if missed else 0


if __name__ == "__main__":
    sys.exit(main())
