#!/usr/bin/env python3
"""Verify a sub-agent's seeded change and file it under /verif/seeded/<ID>_<N>/.

usage: tools/seed_intake.py <ID> <N> [--src /tmp/seed_out]
Checks (all in a scratch copy under /tmp, removed afterwards):
  patch applies to /repo's current tree; repo test-suite result unchanged (327 passed, 1 failed);
  demo exits 1 on the changed tree and 0 on the pristine tree.
"""
import json
import os
import shutil
import subprocess
import sys
import tempfile

HERE = os.path.dirname(os.path.dirname(os.path.abspath(__file__)))


def sh(cmd, **kw):
    return subprocess.run(cmd, shell=True, capture_output=True, text=True, **kw)


def main():
    cid, n = sys.argv[1], sys.argv[2]
    src = "/tmp/seed_out"
    if "--src" in sys.argv:
        src = sys.argv[sys.argv.index("--src") + 1]
    sub = cid
    if "--dir" in sys.argv:  # directory name under src when it differs from the property id
        sub = sys.argv[sys.argv.index("--dir") + 1]
    out_n = n
    if "--as" in sys.argv:   # number to file it under
        out_n = sys.argv[sys.argv.index("--as") + 1]
    d = os.path.join(src, sub)
    patch, demo, meta = (os.path.join(d, f"{x}{n}.{e}") for x, e in
                         (("patch", "diff"), ("demo", "py"), ("meta", "json")))
    tmp = tempfile.mkdtemp(prefix="vf_seed_")
    repo = os.path.join(tmp, "repo")
    ran = []
    try:
        sh(f"rsync -a --exclude .git /repo/ {repo}/")
        r = sh(f"patch -p1 -s -d {repo} -i {patch}")
        ran.append(f"patch -p1 on a copy of /repo HEAD: rc={r.returncode} {r.stdout.strip()[-200:]}")
        if r.returncode:
            print("PATCH FAILED", r.stdout, r.stderr)
            return 1
        sh(f"find {repo} -name '*.orig' -delete")
        r = sh("/venv/bin/python -m pytest -q -p no:cacheprovider --timeout=900 2>&1 | tail -1", cwd=repo)
        tests = r.stdout.strip()
        ran.append(f"repo test-suite on changed copy: {tests}")
        ok_tests = "327 passed" in tests and "1 failed" in tests
        r1 = sh(f"/venv/bin/python {demo} {repo}", cwd=tmp)
        r0 = sh(f"/venv/bin/python {demo} /repo", cwd=tmp)
        ran.append(f"demo on changed copy: exit {r1.returncode}; demo on /repo: exit {r0.returncode}")
        print("\n".join(ran))
        print("demo(changed) tail:", (r1.stdout + r1.stderr)[-600:])
        if r0.returncode:
            print("demo(pristine) tail:", (r0.stdout + r0.stderr)[-600:])
        good = ok_tests and r1.returncode == 1 and r0.returncode == 0
        if not good:
            print("NOT ACCEPTED")
            return 1
        # regenerate the diff against the current tree so that it applies cleanly
        r = sh(f"diff -ruN -x __pycache__ -x '*.pyc' /repo/cisco_acl {repo}/cisco_acl")
        body = r.stdout.replace(f"{repo}/", "b/").replace("/repo/", "a/")
        dst = os.path.join(HERE, "seeded", f"{cid}_{out_n}")
        os.makedirs(dst, exist_ok=True)
        with open(os.path.join(dst, "patch.diff"), "w") as fh:
            fh.write(body)
        shutil.copy(demo, os.path.join(dst, "demo.py"))
        m = json.load(open(meta))
        m["verified_by_me"] = ran
        m.setdefault("checks", [cid])
        json.dump(m, open(os.path.join(dst, "meta.json"), "w"), indent=1)
        print("ACCEPTED ->", dst)
        return 0
    finally:
        shutil.rmtree(tmp, ignore_errors=True)


if __name__ == "__main__":
    sys.exit(main())
