#!/bin/bash
# run the repository's pinned suite; prints the summary line (expected: 327 passed, 1 failed = test__last_modified_date)
cd /repo && /venv/bin/python -m pytest -q -p no:cacheprovider --timeout=900 --continue-on-collection-errors 2>&1 | tail -3
