#!/usr/bin/env python3
"""Regenerate MANIFEST.json from the table below (single source, keeps the file valid)."""
import json
import os

HERE = os.path.dirname(os.path.dirname(os.path.abspath(__file__)))

# id -> (category, technique, level text, level note, design ref)
CHECKS = {
    "C01": (
        "exploration",
        "bounded-exhaustive enumeration of (abstract ACE, spelling, configuration) with meaning "
        "known by construction; deviation bounding (every entry within d field deviations of three "
        "bases, every spelling), a full 4-field product, complete one-dimensional sweeps; each case "
        "executed on the real parser and its rendering read by an independent reader",
        "Every ACE within 2 (quick) / 3 (thorough, on two configurations) field deviations of three "
        "base entries over alphabets chosen from the code's shortcuts, in every accepted spelling, "
        "on 8 / 32 configurations; the full product sport x dstaddr x dport x option tail; all 256 "
        "protocols as number and name, all 65535 eq operands, all 33 masks x spellings x side, every "
        "table name in both port positions followed by flag/log tokens on all 32 configurations, "
        "sequence/whitespace spellings, the standard sub-grammar. Parsed fields are compared with "
        "the generator's meaning (exact prefix sets, port lists, tokens) and the rendered line is "
        "re-read by vf/refsem/reader.py and compared as a packet set.",
        "Trusted: generator meaning-by-construction, golden tables, reader (self-tested). Entries "
        "deviating from every base in more than d fields outside the 4-field product are not reached.",
        "DESIGN.md 4/C01",
    ),
    "C02": (
        "exploration",
        "translation validation by bounded-exhaustive enumeration: every generated ACL (deviation-"
        "bounded single-entry ACLs, all item lists up to a length over a structural alphabet, single "
        "objects) is converted by the real setters and the target text is read by the TARGET "
        "platform's independent reader and compared rule by rule",
        "Per ACL: target text valid for the target grammar (incl. per-platform name vocabularies), "
        "same name/remarks/order/sequence numbers, each source rule <-> one adjacent block with equal "
        "non-port fields, one operand per side on NX-OS, union of port products == original, group "
        "members denote the same union on the same entries, blocks kept, A->B text == A->B->A->B "
        "text; the same for single Ace/Address/AddressAg/AddrGroup; impossible conversions must "
        "raise ValueError/TypeError.",
        "Trusted: readers, generator meaning-by-construction. Multi-operand neq is excluded (C19).",
        "DESIGN.md 4/C02",
    ),
    "C03": (
        "exploration",
        "bounded-exhaustive enumeration of ordered ACE pairs (deviation bound over 16 field "
        "positions, complete alphabets incl. groups with members and empty port sets) x 5 skip "
        "arguments, real shadow_of against an exact packet-set containment oracle",
        "All ordered pairs within 2 deviating field positions (thorough: 3, the third over reduced "
        "alphabets) of two covering base pairs, both platforms, plus an ACL-level unit (groups with "
        "different members on both sides, through shading() directly / on a copy / after a platform "
        "round trip / after a switch): library True must imply same action and exact containment "
        "(unions of cubes decided by exact cover, 65536-bit port masks, flag masks), and answers "
        "must be monotone in the skip set for every pair.",
        "Trusted: refsem containment (self-tested against brute force); DESIGN section 3 packet model.",
        "DESIGN.md 4/C03",
    ),
    "C04": (
        "exploration",
        "complete enumeration of ACL programs (ordered lists with repetition over a 16-item "
        "alphabet) x {flat, grouped} x {unnumbered, numbered} x skip; real delete_shadow on each, "
        "checked by exact cover witnesses and exact first-match equivalence",
        "Every list of length <=3 over 22 items (nested permits, denies between, log-only twins, "
        "keyword-less protocols, groups covered member-wise / only by the union / on both sides, the "
        "same group name with other members, multi-operand eq and neq, remarks, headings), length 4 "
        "over the 12 core items (thorough), length 4/5 over the 9 items that can shadow each other, "
        "and equal-text ACL twins with different group members evaluated in one process (an audited, "
        "unmodified ACL is kept alive): report == shading() just before, second call empty and text-stable, result is a "
        "subsequence with only ACEs removed, each removed ACE exactly covered by an earlier same-"
        "action ACE of the original, first-match function identical on every cell of the atom "
        "product, block names/membership kept.",
        "Trusted: refsem equivalence (self-tested against brute force). Lists whose grouping "
        "merges blocks by a repeated heading are left to C15.",
        "DESIGN.md 4/C04",
    ),
    "C05": (
        "model_checking",
        "complete enumeration of wildcard masks per shape class against a bit-level oracle, plus "
        "explicit-state exploration of every operation history (line/limit assignments, refused "
        "assignments, queries) up to a depth on one real object with a fresh-object differential oracle",
        "Every mask with <=3 stray bits for every run length, two complete 12-bit windows, all 33 "
        "contiguous masks through every constructor and view, every limit 0..30 at k=limit-1/limit/"
        "limit+1: exact set equality with the bit-definition of the cube, no address enumeration. "
        "Staleness is a history property: all operation sequences of depth 4 (quick) / 5 (thorough) "
        "over 14 Wildcard operations and depth 3/4 over 17 Address/AddressAg operations are executed "
        "without state merging; after every step the derived values must equal a fresh object's.",
        "Trusted: cube->prefix definition in vf/refsem/sets.py (self-tested against brute force), "
        "ipaddress. Masks with more than 3 stray bits outside the two 12-bit windows are not enumerated.",
        "DESIGN.md 4/C05",
    ),
    "C06": (
        "exploration",
        "bounded-exhaustive enumeration per exported class (ports, protocols, options, wildcards, "
        "addresses, group members, address groups, remarks, ACEs, ACE groups, ACLs, config-level "
        "functions) with a parse-render-parse fixed-point oracle and data() equality",
        "Native input: X(l1).line == l1 and X(l1).data() == X(input).data(); foreign spelling "
        "(classification from the generator): stable from the first re-parse and same meaning by "
        "the independent reader. Domains: all port expressions x names x 16 configurations, 256 "
        "protocols + names x platform x switches, option token lists <=3, ~400 masks x 3 bases, all "
        "address spellings incl. members, address groups (<=3 members x numbering x 4 indents), "
        "tricky remark texts, the deviation-bounded ACE space, item lists <=2/3 x 4 indent/name/"
        "group_by variants for Acl and AceGroup, standard ACLs, acls()/aces()/addrgroups() on the "
        "rendered text.",
        "Trusted: generator classification native/foreign; readers for the meaning of foreign inputs.",
        "DESIGN.md 4/C06",
    ),
    "C07": (
        "exploration",
        "complete enumeration of configurations as ordered arrangements of distinct sections "
        "(ACLs, address groups, interfaces with bindings, noise) x indentation x platform x name "
        "filter; acls()/aces()/addrgroups() compared with a model computed from the arrangement",
        "Every ordered arrangement of <=3 (quick) / <=4 (thorough) distinct sections of a 14-section "
        "alphabet (two extended ACLs referencing a defined group on source, destination and both "
        "sides and an undefined group, a standard ACL, two groups, five interfaces incl. in+out of "
        "two ACLs on one interface and duplicate bindings, four kinds of noise incl. a three-level "
        "section and comment lines), indentation 1..3, both platforms, all 7 non-empty name filters "
        "on the two-section arrangements: names/order/type, items by meaning, sorted duplicate-free "
        "input/output lists, exactly the defined group's members (IOS masks read as wildcards) on "
        "every referencing side, nothing on plain addresses; aces() and addrgroups() likewise.",
        "Trusted: the section model in the check, readers. Configurations with duplicate headers or "
        "ACL sections without body lines are outside the domain.",
        "DESIGN.md 4/C07",
    ),
    "C08": (
        "model_checking",
        "complete enumeration of operator x operand products against the set definitions, all "
        "subsets of a 12-port window for the codec, and every sequence of <=3 self-assignments "
        "through the three writable views on one real Port object",
        "Port sets are compared exactly (ascending list == definition) for every single operand "
        "(boundary set in quick, all 65535 in thorough), all ordered boundary pairs for range, all "
        "ordered tuples of <=3 operands from 8 values for eq/neq; the range-string codec is closed "
        "over all 4096 subsets at 5 offsets chosen around CPython's set-iteration wrap points; "
        "write-back is explored as histories (39 sequences per expression, 29 expressions incl. "
        "the ones denoting no port) with a state-unchanged invariant after every step.",
        "Trusted: vf.refsem.sets.port_expr_mask (self-tested). Operands outside 1..65535 are C20's.",
        "DESIGN.md 4/C08",
    ),
    "C09": (
        "exploration",
        "complete enumeration of the finite domain (every table row, every number 1..65535 x "
        "platform x version x protocol x switch) against hand-written golden tables",
        "Exhaustive over the whole (finite) domain of the property: all 3.1M (platform, version, "
        "protocol, switch, number) combinations and every (table, name) row are executed on the "
        "real Port/Protocol/Ace classes and closed under name->number->name->number; the "
        "splitter vocabulary and keyword collisions are checked for every module-level table.",
        "Trusted: golden name tables written by hand (cross-read against /etc/services); CPython.",
        "DESIGN.md 4/C09",
    ),
    "C10": (
        "model_checking",
        "explicit-state exploration over (tree shape, numbering) states with resequence(start, step) "
        "transitions for the complete boundary product of arguments, depth 2, an arithmetic reference "
        "model stepped next to the real Acl/AceGroup/AddrGroup",
        "All tree shapes with <=4 (quick) / <=5 (thorough) leaves (explicit AceGroup items and "
        "group-by-prefix), 6 previous numberings (incl. all-equal lines), 9 start x 8 step values "
        "around 0, 1, 2^31, 2^32-1, 2^32 and negatives, both platforms, then 4 second calls from the "
        "reached state (also after a refused call): numbers == s+i*d in rendered order, return value, "
        "start 0 clears, the three error conditions raise ValueError, no number above 2^32-1 after a "
        "normal return, content and structure unchanged, rendered text carries the numbers.",
        "Trusted: the arithmetic model (a few lines). Nothing is claimed about numbers left behind "
        "by a refused call.",
        "DESIGN.md 4/C10",
    ),
    "C11": (
        "exploration",
        "same pair enumeration as C03 restricted to group-free entries with non-empty port sets, "
        "oracle is an equivalence for all skip arguments; every ordered list of <=3/4 distinct "
        "entries of a 10-entry alphabet (plus lists with duplicates) for the ACL-level report",
        "Exactness (no missed and no spurious shadow) for every enumerated pair and skip argument; "
        "Acl.shading()/shadow_of() compared with the first-earlier-cover spec computed from the exact "
        "relation for every enumerated ACL under three skip arguments.",
        "Trusted: as C03. Lists with duplicate lines are compared at the level of line sets.",
        "DESIGN.md 4/C11",
    ),
    "C12": (
        "exploration",
        "complete enumeration of body-line sequences (valid / ignorable / invalid / over-limit / "
        "blank lines) up to a length x class x platform with the root logger captured; accounting "
        "identity checked per sequence",
        "Every sequence with repetition of <=3 (quick) / <=4 (thorough) lines over a 15-line alphabet "
        "for Acl(line=) and AceGroup(line=), and over 8-9 member lines for AddrGroup(line=) and "
        "AddrGroup(items=), both platforms: construction raised a documented error (not allowed when "
        "every line is valid or ignorable), or every invalid line is named in a log record (WARNING "
        "for ACLs), ignorable lines are skipped, and the items are exactly the valid lines in order "
        "with the same meaning (independent reader).",
        "Trusted: reader for item meaning; 'reported' means the normalised line text occurs in a "
        "record on the root logger.",
        "DESIGN.md 4/C12",
    ),
    "C13": (
        "exploration",
        "complete enumeration of ordered address pairs (nested chain of all 33 prefix lengths, "
        "siblings, dirty bases, 25 non-contiguous cubes) x spellings x platforms x five containment "
        "APIs, groups of <=2/3 members, against bit-algebra containment",
        "Every ordered pair of a 68-address alphabet through Address.subnet_of, AddressAg.subnet_of, "
        "functions.subnet_of, `member in member`, every spelling x spelling for a 12-address subset, "
        "`member in AddrGroup` for all groups of <=2 (quick) / 3 (thorough) members, and Address "
        "objects carrying group members (soundness only): answer must equal cube containment.",
        "Trusted: cube algebra (self-tested). `in` may raise TypeError on non-contiguous operands.",
        "DESIGN.md 4/C13",
    ),
    "C14": (
        "exploration",
        "complete enumeration of all address lists (order, duplicates) up to a length over an "
        "18-block alphabet x 2 classes x 2 platforms against exact union equality",
        "Every list of length <=3 (quick) / <=4 (thorough) over the 15 blocks of a /29 tree plus /0 "
        "and both /1, and one element longer over an 8-block chain alphabet: output union == input "
        "union (exact), len(out) <= len(in), ascending, class/platform kept, notes dropped, inputs "
        "unmodified; non-contiguous and foreign elements refused with TypeError at every position.",
        "Trusted: cube cover. One known finding (IOS group cannot spell 0.0.0.0/0) is listed in "
        "known_findings.json.",
        "DESIGN.md 4/C14",
    ),
    "C15": (
        "model_checking",
        "explicit-state exploration: every item sequence up to a length x 4 prefixes, operated by "
        "group/ungroup/resequence/EVERY permutation of the top-level items/sort/reverse on the real "
        "Acl, invariants (ACE multiset, text, block integrity, restored order, TCAM formula) checked "
        "in every state",
        "All sequences with repetition of <=4 (quick) / <=5 (thorough) items over 10 items (two "
        "headings, a repeated heading, a plain remark, ACEs, ACEs with address-group members on one "
        "or both sides) x prefixes {'= ', '=', no match, empty}: multiset of ACE lines constant under "
        "every operation; with distinct headings group/ungroup leave the text unchanged; after "
        "resequence, for every permutation of the top-level items applied with list methods the text "
        "is the concatenation of intact blocks, and sort() restores the numbered text; tcam_count() "
        "equals the formula in every state.",
        "Trusted: the TCAM formula as stated in the property; blocks merged by a repeated heading "
        "are only required to conserve ACEs.",
        "DESIGN.md 4/C15",
    ),
    "C16": (
        "model_checking",
        "(A) enumeration of objects of every exported class with a STRUCTURAL independence oracle "
        "(reachable mutable object graphs of source and copy must be disjoint) plus mutation of "
        "every reachable container; (B) explicit-state exploration of all transformation sequences "
        "up to a depth from seed ACLs with an identifier/note stability invariant on every step",
        "(A) copy() and Class(**data()) for ~2900 objects (ports, protocols, options, wildcards, "
        "addresses with members, group members, address groups, remarks, the deviation<=1 ACE space "
        "x switch settings, item lists <=3 as Acl flat/grouped+numbered and as AceGroup): equal, "
        "same text, same data, same note object, fresh uuid, no shared mutable object, and poking "
        "each list/dict/set of one side never changes the other. (B) every sequence of <=2 (quick) "
        "/ <=3 (thorough) of 12 operations (platform, type, switches, resequence, sort, reverse, "
        "group, ungroup) from 3 seed ACLs: uuid and note of the ACL, every item, block, field object "
        "and group member that existed before and was not replaced by a port split are unchanged.",
        "Trusted: the definition of 'mutable' in the walker. Known finding K03 (IOS /0 prefix, "
        "pinned by tests) is listed in known_findings.json.",
        "DESIGN.md 4/C16",
    ),
    "C17": (
        "model_checking",
        "explicit-state search over operation histories: every sequence of up to D of 21 public "
        "operations from three seed ACLs is replayed on a fresh real Acl next to a reference model "
        "stepped in lock-step; invariants after every step; differential history-independence oracle "
        "(history object vs object rebuilt from data()) for every operation at every non-final state",
        "All histories of length <=2 (quick: 1386) / <=3 over 21 operations plus <=4 over 10 "
        "structural operations (thorough: 59169) from 3 seeds (IOS with multi-operand eq, names, "
        "shadowed entries, headings, a group with members; NX-OS grouped and numbered with a group; "
        "IOS with non-contiguous wildcard, numeric protocol, a duplicate, neq). After every step: "
        "text parses back to itself, the independent reader's rule list equals the model's, block "
        "names/sequence numbers/sizes and group members equal the model's, no operation is refused; "
        "at non-final states every operation applied to the history object and to Acl(**data()) "
        "reaches the same fingerprint.",
        "Trusted: the reference model in vf/checks/c17.py (grouping, split incl. the pinned neq "
        "behaviour, member-wise shadow relation), readers. Beyond the bound nothing is claimed "
        "(no random exploration: sampling is a different technique family).",
        "DESIGN.md 4/C17",
    ),
    "C18": (
        "exploration",
        "complete enumeration of request lists up to a length x side x templates x ports-per-line "
        "x range policy x platform x switch; generated lines read by the platform's independent "
        "reader and compared with the requested set exactly",
        "Every comma list of <=2 (quick) / <=3 (thorough) tokens over 12 port tokens (singles, a "
        "named port, 65535, a-b ranges incl. 7-7 and the top of the range, the empty token) for both "
        "sides, 6 templates, port_count 1..3, both range policies, both platforms, names/numbers; "
        "both sides in one call; protocol requests <=3 tokens x 3 templates: each call is a "
        "documented refusal or every line is valid for the platform, carries <= port_count eq "
        "operands, follows the range-versus-eq policy, equals the template outside the generated "
        "field, and the union of the generated field equals the requested set.",
        "Trusted: readers, request-string semantics in the check. Known finding K05 (range template "
        "+ two single ports per line) is listed in known_findings.json.",
        "DESIGN.md 4/C18",
    ),
    "C19": (
        "exploration",
        "complete enumeration of (source expression, destination expression) pairs x context "
        "lists x positions x 7 call sites; real split compared block-by-block with the original "
        "entry by exact packet-set union and exact first-match equivalence",
        "All pairs over 10 port expressions (none/eq/neq/range/gt, 1..3 operands, port 0, one "
        "10-operand list) for one entry placed at every position of every context list of length "
        "<=1 (quick) / <=2 (thorough), through Ace/AceGroup/Acl.ungroup_ports (flat, grouped by "
        "prefix, explicit AceGroup before/after plain items) and Acl.platform='nxos': block at the "
        "original position, other fields equal, one operand per side, union == original, ACL "
        "decisions unchanged, unsplit entries keep their identity.",
        "Trusted: readers + refsem equivalence. Known finding K02 (per-operand split of multi-"
        "operand neq, pinned by the repository's tests) is matched by its exact wrong result.",
        "DESIGN.md 4/C19",
    ),
    "C20": (
        "exploration",
        "complete enumeration of token sequences up to a length over a vocabulary of ACL words, "
        "fragments, out-of-range values and oddities x 13 constructor entry points x 3 platforms; "
        "all truncations/permutations of valid lines; all indentation assignments of 5 config line "
        "lists; repetition-count sweeps for every loop/recursion/regex on the input path",
        "~700k (quick) / ~3M (thorough) constructor calls: each must return or raise ValueError/"
        "TypeError within a per-call CPU budget; whatever is returned must render text the same "
        "constructor accepts again; config-level functions likewise on every indentation assignment "
        "(4^5 quick / 5^5 thorough per line list, with and without comment lines); sweeps n = 1..5000 "
        "for 29 input shapes must terminate without other exceptions and grow at most ~quadratically; "
        "valid lines of 40..160 characters whose rendering is longer/shorter than the input.",
        "Trusted: CPU alarm (SIGVTALRM). Termination is decided only up to the per-call budget and the "
        "sweep sizes. Known finding K06 (Acl('') renders a header Acl rejects; pinned by tests).",
        "DESIGN.md 4/C20",
    ),
}

# sentences appended to the level text (extensions made after the seeded-change waves)
EXTRA = {
    "C01": " Single-field deviations are also parsed through every other entry point that reads ACE "
           "lines (AceGroup, Acl, items lists, acls/aces with and without group_by, data, copy).",
    "C03": " Also: every ordered pair of standard (source-only) IOS entries over action x 19 addresses x "
           "log, the <=1-deviation pair space with protocol_nr / port_nr on, and entries modified after "
           "construction through the setters of their field objects (19 setter sequences x 3 entries x 15 "
           "partners, oracle = what the entry renders now).",
    "C08": " Write-back histories also run in 'held' mode: the three views are read once and the very "
           "same objects are assigned repeatedly; the assigned objects must stay unchanged.",
    "C10": " Depth-2 shapes (a group inside a group, built with the list methods) included.",
    "C12": " The same sequences given as items=[...] lists and as sections of a configuration (blank / TAB "
           "indentation) through acls() / addrgroups().",
    "C14": " Objects born as group references with members and re-pointed to a plain address included.",
    "C17": " Seeds carry non-default indent / max_ncwb, checked in every state.",
    "C04": " Also: standard ACLs (every list of <=3, thorough 4, of 9 source-only items, flat/numbered, "
           "with and without the nc_wildcard skip), lists of <=3 with the numeric switches on, and "
           "non-contiguous sources among plain ones.",
    "C05": " The configured limit is driven through every place where a mask is read (Address, Ace "
           "source/destination, AceGroup, Acl flat/grouped/standard, AddressAg, AddrGroup text and items, "
           "acls/aces/addrgroups incl. attached group members) for limits {0,1,2,4,16,17,20,30} x masks "
           "needing {0,1,2,3,5,17,18} bits: accepted iff k <= limit. Address histories also attach "
           "group members and re-point the address; 'blind' histories read nothing between the steps; "
           "the caller edits returned lists.",
    "C06": " Also: every port number that has a name in any table, and every name, on source and "
           "destination side through Ace / AceGroup / Acl on asa, ios (4 versions) and nxos (4 versions), "
           "names and numbers.",
    "C07": " Bounds now <=4 (quick) / <=5 (thorough) sections; ACL names beginning with a type keyword; "
           "NX-OS members without sequence numbers incl. a non-contiguous one; 9 keyword-option settings "
           "(switches, versions, max_ncwb, three group_by values) must not change what is extracted.",
    "C11": " Also: standard entries and ACLs (8 source-only lines, lists <=3/4, three skip arguments) "
           "and pairs / ACLs with protocol_nr / port_nr on; entries modified after construction (as C03).",
    "C09": " Names chosen by range_ports()/range_protocols() are checked the same way on all three "
           "platforms; at ACL level (group_by blocks) the version table must survive 10 object-level "
           "operations.",
    "C13": " Cross-platform `in` (same text, other meaning) for all 31 mask lengths; re-pointed group "
           "references. Also the complete family of all masks over a 5-bit (quick) / 7-bit (thorough) window x "
           "tail {0,3} x 2 bases - every ordered pair - and, in thorough, every spelling x spelling "
           "for every pair of the alphabet.",
    "C15": " Also: 9 heading markers containing regular-expression metacharacters (each with a remark "
           "a pattern reading would match), 4 non-default indents, and the block structure predicted "
           "from the item list.",
    "C16": " Also: every class built with a non-default max_ncwb (0, 4, 20); nested group-object members.",
    "C18": " range_protocols templates include a port on one side only.",
    "C19": " Sequence-numbered lines (dense numbering 10, 11, ...) at every call site: quick "
           "alternates, thorough runs both.",
    "C20": " Also: 35 arbitrary texts in each text-valued keyword option (group_by, indent, version, "
           "names, name, note) of 9 entry points.",
}

NOT_BUILT = "check not built yet (work in progress, see DESIGN.md section 8 build order)"


def main():
    ids = [f"C{i:02d}" for i in range(1, 21)]
    checks = []
    for cid in ids:
        if cid not in CHECKS:
            continue
        cat, tech, text, note, ref = CHECKS[cid]
        text += EXTRA.get(cid, "")
        checks.append(dict(
            property_id=cid,
            quick_cmd=f"./vcheck {cid} --tier quick",
            thorough_cmd=f"./vcheck {cid} --tier thorough",
            evidence_file=f"/verif/evidence/{cid}.json",
            replay_cmd_template=f"./vcheck {cid} --replay {{path}}",
            engine="vf-explorer",
            level_claimed=dict(category=cat, text=text, design_ref=ref),
            level_note=note,
            technique=tech,
        ))
    manifest = dict(
        version=1,
        setup_cmd="./vcheck selftest",
        hooks=dict(
            guard="CISCO_ACL_VERIF",
            enable="no hooks are needed: all observation goes through the public API and read-only "
                   "inspection of __dict__; the guard variable is declared but unused",
            baseline_off_cmd="cd /repo && /venv/bin/python -m pytest -ra -q -p no:cacheprovider "
                             "--timeout=900 --continue-on-collection-errors",
            source_commits=[],
            add_only=True,
        ),
        engines=[dict(
            name="vf-explorer",
            path="/verif/vf",
            serves_properties=[c["property_id"] for c in checks],
            kind_free_text="hand-written bounded-exhaustive explorer for Python: complete "
                           "enumeration of input/program spaces and explicit-state search over "
                           "operation histories, executed on the real library next to an "
                           "independent reference semantics (vf/refsem)",
        )],
        checks=checks,
        notes="See DESIGN.md. Exit 0 = held on everything explored; exit 1 + VIOLATION line; exit 2 "
              "= harness broken (vacuous run or crash), never a verdict.",
        not_applicable=[dict(property_id=c, reason=NOT_BUILT) for c in ids if c not in CHECKS],
    )
    with open(os.path.join(HERE, "MANIFEST.json"), "w", encoding="utf-8") as fh:
        json.dump(manifest, fh, indent=1)
        fh.write("\n")


if __name__ == "__main__":
    main()
