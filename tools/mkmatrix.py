#!/usr/bin/env python3
"""Rewrite the detection table in DESIGN.md (between the DETECTION-TABLE markers) from
mutants_report.json (written by tools/mutants.py) and the meta.json of every seeded change."""
import json
import os

HERE = os.path.dirname(os.path.dirname(os.path.abspath(__file__)))
BEGIN, END = "<!-- DETECTION-TABLE-BEGIN -->", "<!-- DETECTION-TABLE-END -->"


def title_of(name):
    path = os.path.join(HERE, name)
    if name.endswith("patch.diff"):
        m = json.load(open(os.path.join(os.path.dirname(path), "meta.json")))
        t = m.get("title", "")[:110]
        if m.get("obsolete"):
            why = str(m["obsolete"])
            t = ("[NOT ADOPTED - outside the property's domain on the pinned tree, see 10.4] "
                 if "outside" in why else "[OBSOLETE after a fix, see meta.json] ") + t
        return t
    for line in open(path):
        if line.startswith("# note:"):
            return line.split(":", 1)[1].strip()
    return ""


def main():
    rep = json.load(open(os.path.join(HERE, "mutants_report.json")))
    rows = ["| change | what it does | detected by (check: first signatures) |", "|---|---|---|"]
    n_det = 0
    for name in sorted(rep):
        if not os.path.exists(os.path.join(HERE, name)):
            continue
        v = rep[name]["verdicts"]
        cells = []
        det = False
        if isinstance(v, list):
            for prop, verdict, sigs in v:
                if verdict == "DETECTED":
                    det = True
                    cells.append(f"**{prop}**: " + ", ".join(f"`{s}`" for s in sigs[:2]))
                elif "rc=2" not in verdict:
                    cells.append(f"{prop}: not detected")
        else:
            cells.append(str(v))
        n_det += det
        short = name.replace("/patch.diff", "").replace(".patch", "")
        rows.append(f"| {short} | {title_of(name)[:150]} | {'; '.join(cells)} |")
    rows.append("")
    rows.append(f"{n_det} of {len(rows) - 3} changes detected by at least one registered quick check.")
    p = os.path.join(HERE, "DESIGN.md")
    s = open(p).read()
    if BEGIN not in s:
        raise SystemExit("markers missing in DESIGN.md")
    s = s[:s.index(BEGIN) + len(BEGIN)] + "\n" + "\n".join(rows) + "\n" + s[s.index(END):]
    open(p, "w").write(s)
    print("table rewritten:", len(rows) - 3, "rows")


if __name__ == "__main__":
    main()
