#!/bin/bash
# intake both wave-3 seeds of a property (dir /tmp/seed_out/<prefix>_<ID>) and run the checks on them
id=$1; prefix=${2:-c}
cd /verif
last=$(ls -d seeded/${id}_* 2>/dev/null | sed "s/.*_//" | sort -n | tail -1); last=${last:-0}
names=""
for n in 1 2; do
  k=$((last+n))
  tools/seed_intake.py $id $n --dir ${prefix}_$id --as $k 2>&1 | grep -E "ACCEPT|NOT ACC|PATCH FAILED"
  names="$names seeded/${id}_$k/"
done
git -C /repo worktree remove --force /tmp/seed${prefix}_$id 2>/dev/null
tools/mutants.py $names 2>&1 | grep -E "^\(|MISSED|detected" | cut -c1-260
